'use strict'
// simjs — deterministic simulation (Node side): C11 and C06.
const k = require('./kernel')
const engines = {}
for (const e of [require('./c11')]) engines[e.id] = e
try { const c06 = require('./c06'); engines[c06.id] = c06 } catch (e) { if (e.code !== 'MODULE_NOT_FOUND') throw e }

async function main () {
  const a = process.argv.slice(2)
  const cmd = a[0]
  if (cmd === 'check') {
    const e = engines[a[1]]
    if (!e) { console.error('unknown property ' + a[1]); return 2 }
    let tier = a[2] === 'thorough' ? 'thorough' : 'quick'
    if (process.env.VERIF_TIER === 'quick' || process.env.VERIF_TIER === 'thorough') tier = process.env.VERIF_TIER
    const seed = parseInt(process.env.VERIF_SEED || '1', 10) || 1
    let runs = null; let workers = parseInt(process.env.VERIF_WORKERS || '0', 10) || require('os').cpus().length
    for (let i = 3; i + 1 < a.length; i += 2) {
      if (a[i] === '--runs') runs = parseInt(a[i + 1], 10)
      if (a[i] === '--workers') workers = parseInt(a[i + 1], 10)
    }
    return k.checkMain(e, tier, seed, workers, runs)
  } else if (cmd === 'worker') {
    await k.workerMain(engines[a[1]], parseInt(a[2], 10), parseInt(a[3], 10), parseInt(a[4], 10), a[5])
    return 0
  } else if (cmd === 'exec') {
    return k.execMain(engines, a[1])
  } else if (cmd === 'replay') {
    return k.replayMain(engines, a[1], a[2])
  } else if (cmd === 'plan') {
    const e = engines[a[1]]
    console.log(JSON.stringify(e.plan(parseInt(a[2] || '1', 10), parseInt(a[3] || '0', 10), a[4] || 'quick'), null, 1))
    return 0
  }
  console.error('usage: main.js check <C06|C11> quick|thorough [--runs N] [--workers N] | replay <prop> <file> | exec <file> | plan <prop> <seed> <run>')
  return 2
}
main().then(rc => { process.exitCode = rc }, e => { console.error(e); process.exitCode = 2 })
