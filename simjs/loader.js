'use strict'
// Module seam: loads the REAL /repo/main.js, js/source-map, js/stack-trace (never copied) with
// three requests redirected: './wasm/wasm_iast_rewriter' (from main.js) -> adapter serving results
// of the real Rust rewriter, 'lru-cache' -> vendored lru-cache 7.18.3 (the real library),
// 'fs' (from js/source-map/index.js) -> simulated fs.
const Module = require('module')
const path = require('path')

const REPO = process.env.VERIF_REPO || '/repo'
const VENDOR_LRU = path.resolve(__dirname, '../vendor/lru-cache')

let current = null // { adapter, simfs }
const origLoad = Module._load
Module._load = function (request, parent, isMain) {
  const from = parent && parent.filename
  // a module of the simulated world requires something whose loading runs code of the world (C11 site kind
  // builtin-callback, loader variant): node's own loader frames are on the stack while the callback runs
  if (request === 'sim:call-during-load') {
    const cb = globalThis.__simLoadCb; const arg = globalThis.__simLoadArg
    globalThis.__simLoadCb = undefined; globalThis.__simLoadArg = undefined
    return typeof cb === 'function' ? cb(arg) : {}
  }
  if (current && from) {
    if (request === './wasm/wasm_iast_rewriter' && from === path.join(REPO, 'main.js')) return current.adapter
    if (request === 'lru-cache' && from.startsWith(REPO + path.sep)) return origLoad.call(this, VENDOR_LRU, parent, isMain)
    if (request === 'fs' && from === path.join(REPO, 'js/source-map/index.js')) return current.simfs
  }
  return origLoad.apply(this, arguments)
}

// fresh module instances (module-level caches start empty) for every run
function loadPackage (adapter, simfs) {
  for (const k of Object.keys(require.cache)) {
    if (k.startsWith(REPO + path.sep)) delete require.cache[k]
  }
  current = { adapter, simfs }
  const pkg = require(path.join(REPO, 'main.js'))
  const sourceMap = require(path.join(REPO, 'js/source-map/index.js'))
  return { pkg, sourceMap }
}

module.exports = { loadPackage, REPO }
