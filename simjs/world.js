'use strict'
// The simulator's world for C06: every operand of every generated instrumented operation calls
// into `$`, which hands control to a seeded scheduler (re-enter a function, construct a class,
// step a suspended generator, settle a pending await, throw a fault) before returning a unique
// token. The tracer's hook object `_ddiast` is the monitor.
const { Rng, mix } = require('./kernel')

class SimFault extends Error {
  constructor () { super('SimFault'); this.name = 'SimFault' }
}

const NESTED_DEFAULT = 'param-default:function-expression-argument'
const KNOWN_CTX = new Set(['param-default:function', 'class-field:instance', NESTED_DEFAULT])
const TOKEN_RE = /<a(\d+)\.s(\d+)\.n(\d+)>/g

class World {
  constructor (seed, registry, limits) {
    this.seed = seed >>> 0
    this.ops = registry.ops
    // programs with an operation in a known-finding context: an intrusion that cannot be attributed to
    // a probe site (the clobbering value is not a token, e.g. a method function) is keyed apart
    this.hasKnownCtx = Object.values(registry.ops).some(o => KNOWN_CTX.has(o.label))
    // site -> operations containing it, innermost first
    this.siteOps = {}
    for (const id of Object.keys(registry.ops)) {
      for (const s of registry.ops[id].leaves) {
        if (s === 'ACC') continue
        (this.siteOps[s] = this.siteOps[s] || []).push(id)
      }
    }
    for (const s of Object.keys(this.siteOps)) this.siteOps[s].sort((a, b) => registry.ops[a].leaves.length - registry.ops[b].leaves.length)
    this.limits = Object.assign({ budget: 300, depth: 5, registry: 40 }, limits || {})
    this.events = 0
    this.depth = 0
    this.nextAct = 1
    this.serial = 0
    this.latest = new Map() // "act.site" -> serial
    this.visits = new Map() // site -> count
    this.callables = [] // {name, fn, kind}
    this.classes = []
    this.instances = []
    this.gens = [] // {it, async, pending:{act,site}|null, started}
    this.deferred = [] // {act, site, resolve}
    this.violations = []
    this.exceptions = []
    this.log = []
    this.trace = [] // abstract interleaving
    this.stats = {}
    this.monitor = true
    this.stack = [] // activation stack (enter events)
    this.liveProbe = 0
    const self = this
    this.$ = {
      p: (act, site) => self.probe(act, site),
      y: (act, site) => ({ __yield: true, act, site }),
      d: (act, site) => self.defer(act, site),
      o: (act, site) => self.optProbe(act, site),
      a: () => self.nextAct++,
      t: (v) => !!v || true,
      c: (act, site) => self.condProbe(act, site),
      n: (v) => v,
      ac: (e) => { if (!(e instanceof SimFault)) self.foreign(e, 'async iife') },
      q: (act, site) => {
        // a function or nothing (for optional calls on a non-member callee)
        const v = (self.visits.get(site) || 0) + 1
        self.visits.set(site, v)
        self.events++
        return self.rngFor(site + 15485863, v).chance(1, 4) ? null : (x) => x
      },
      k: (act, site, fn) => {
        // call the function expression back synchronously (fresh activation, default parameter used)
        self.stat('fault:synchronous-callback')
        self.depth++
        try { self.guard(() => fn(self.nextAct++), 'callback argument') } finally { self.depth-- }
        return self.probe(act, site)
      },
      K: class K { constructor (v) { this.v = v } },
      tag: (strs, ...vals) => vals.join(''),
      reg: (name, fn, kind) => { self.callables.push({ name, fn, kind }); if (self.callables.length > self.limits.registry) self.callables.shift() },
      regObj: (name, obj, members) => {
        for (const m of members) {
          if (m.kind === 'method') self.callables.push({ name: name + '.' + m.name, fn: (a) => obj[m.name](a), kind: 'fn' })
          else if (m.kind === 'genmethod') self.callables.push({ name: name + '.' + m.name, fn: (a) => obj[m.name](a), kind: 'gen' })
          else if (m.kind === 'getter') self.callables.push({ name: name + '.' + m.name, fn: () => obj[m.name], kind: 'fn' })
          else self.callables.push({ name: name + '.' + m.name, fn: () => { obj[m.name] = 1 }, kind: 'fn' })
        }
        while (self.callables.length > self.limits.registry) self.callables.shift()
      },
      regClass: (name, C, members) => { self.classes.push({ name, C, members }); if (self.classes.length > 12) self.classes.shift() },
      enter: (act, name) => { self.ev('enter', act); self.stat('activations') },
      caught: (act, e) => { self.ev('catch', act); if (!(e instanceof SimFault)) self.foreign(e, 'caught by generated catch') }
    }
    // H4 sentinel: every injected `let` is initialised with this object by the executor (instead of
    // being left undefined), so that a temporary READ BEFORE IT WAS ASSIGNED is observable: any use of
    // the sentinel (property access, call, conversion to a primitive, being handed to a hook) is the
    // violation. `==`, `typeof` and plain copying do not trap, and never happen to a live temporary
    // before its assignment in correct output either.
    const sentinelUse = (how) => {
      self.violate('H4', 'temporary-read-before-assignment' + (self.hasKnownCtx ? ':with-known-ctx' : ''), `an injected temporary was used before anything was assigned to it in this scope (${how})`)
      return undefined
    }
    this.unassigned = new Proxy(function simUnassigned () {}, {
      get (t, k) { return sentinelUse('read of .' + String(k)) },
      apply () { return sentinelUse('called') },
      construct () { sentinelUse('constructed'); return {} },
      has (t, k) { sentinelUse('`in` test'); return false }
    })
    this.hooks = new Proxy({}, {
      get (t, name) {
        if (typeof name !== 'string') return undefined
        return function (...args) { return self.hook(name, args) }
      },
      has () { return true }
    })
  }

  stat (k, n) { this.stats[k] = (this.stats[k] || 0) + (n === undefined ? 1 : n) }
  ev (kind, act) { this.trace.push(kind + (act === undefined ? '' : ':' + act)) }
  rngFor (a, b) { return new Rng(mix(this.seed, mix(a >>> 0, b >>> 0))) }

  token (act, site) {
    const n = ++this.serial
    this.latest.set(act + '.' + site, n)
    return `<a${act}.s${site}.n${n}>`
  }

  foreign (e, where) {
    const msg = `${e && e.name}: ${e && e.message}`
    this.exceptions.push({ msg, where })
  }

  // ---- scheduling points --------------------------------------------------------------------
  probe (act, site) {
    this.events++
    this.ev('probe', act)
    const v = (this.visits.get(site) || 0) + 1
    this.visits.set(site, v)
    if (this.events < this.limits.budget && this.depth < this.limits.depth) {
      const r = this.rngFor(site, v)
      const k = r.weighted([11, 3, 1, 2, 2, 1])
      this.depth++
      this.liveProbe++
      try {
        if (k === 1) this.actCall(r)
        else if (k === 2) this.actConstruct(r)
        else if (k === 3) this.actStep(r)
        else if (k === 4) this.actResolve(r)
        else if (k === 5) { this.stat('fault:throw-in-operand'); this.ev('throw', act); throw new SimFault() }
      } finally { this.depth--; this.liveProbe-- }
    }
    return this.token(act, site)
  }

  condProbe (act, site) {
    const v = (this.visits.get(site) || 0) + 1
    this.visits.set(site, v)
    this.events++
    const b = this.rngFor(site + 104729, v).chance(1, 2)
    this.stat(b ? 'cond-true' : 'cond-false')
    return b
  }

  optProbe (act, site) {
    const v = (this.visits.get(site) || 0)
    const r = this.rngFor(site + 7919, v + 1)
    if (r.chance(1, 4)) { this.visits.set(site, v + 1); this.events++; return r.chance(1, 2) ? null : undefined }
    return this.probe(act, site)
  }

  defer (act, site) {
    this.events++
    this.ev('await', act)
    let resolve
    const p = new Promise((res) => { resolve = res })
    this.deferred.push({ act, site, resolve })
    this.stat('awaits')
    return p
  }

  guard (f, where) {
    try { return f() } catch (e) { if (!(e instanceof SimFault)) this.foreign(e, where) }
  }

  invoke (c, reentrant) {
    const act = this.nextAct++
    if (reentrant) { this.stat('fault:reentrant-call'); if (this.liveProbe > 0) this.stat('probe:re-entry-while-operand-evaluation-in-progress') }
    if (c.kind === 'fn') this.guard(() => c.fn(act), 'call ' + c.name)
    else if (c.kind === 'gen') { const it = this.guard(() => c.fn(act), 'call ' + c.name); if (it) this.gens.push({ it, async: false, pending: null, name: c.name }) } else if (c.kind === 'asyncgen') { const it = this.guard(() => c.fn(act), 'call ' + c.name); if (it) this.gens.push({ it, async: true, pending: null, name: c.name, busy: false }) } else if (c.kind === 'async') {
      const p = this.guard(() => c.fn(act), 'call ' + c.name)
      if (p && p.then) p.then(() => {}, (e) => { if (!(e instanceof SimFault)) this.foreign(e, 'async ' + c.name) })
    }
    if (this.gens.length > 12) this.gens.shift()
  }

  actCall (r) {
    if (!this.callables.length) return
    this.ev('call')
    this.invoke(r.pick(this.callables), true)
  }

  actConstruct (r) {
    if (!this.classes.length) return
    const c = r.pick(this.classes)
    this.ev('construct')
    this.stat('fault:reentrant-construct')
    const inst = this.guard(() => new c.C(this.nextAct++), 'new ' + c.name)
    if (inst) {
      this.instances.push({ inst, c }); if (this.instances.length > 8) this.instances.shift()
      const ms = c.members.filter(m => ['method', 'getter', 'static'].includes(m.kind))
      if (ms.length && r.chance(2, 3)) {
        const m = r.pick(ms)
        if (m.kind === 'method') this.guard(() => inst[m.name](this.nextAct++), 'method ' + m.name)
        else if (m.kind === 'getter') this.guard(() => inst[m.name], 'getter ' + m.name)
        else this.guard(() => c.C[m.name](this.nextAct++), 'static ' + m.name)
      }
    }
  }

  stepResult (g, res) {
    if (!res || res.done) { const i = this.gens.indexOf(g); if (i >= 0) this.gens.splice(i, 1); return }
    const v = res.value
    g.pending = v && v.__yield ? { act: v.act, site: v.site } : null
  }

  actStep (r) {
    const ready = this.gens.filter(g => !g.busy && !g.running)
    if (!ready.length) return
    const g = r.pick(ready)
    this.ev('resume')
    this.stat('fault:generator-resumed')
    if (this.liveProbe > 0) this.stat('probe:generator-resumed-while-operand-evaluation-in-progress')
    const send = g.pending ? this.token(g.pending.act, g.pending.site) : undefined
    g.pending = null
    if (g.async) {
      g.busy = true
      const p = this.guard(() => g.it.next(send), 'resume ' + g.name)
      if (p && p.then) p.then((res) => { g.busy = false; this.stepResult(g, res) }, (e) => { g.busy = false; const i = this.gens.indexOf(g); if (i >= 0) this.gens.splice(i, 1); if (!(e instanceof SimFault)) this.foreign(e, 'async generator ' + g.name) })
      else g.busy = false
    } else {
      g.running = true
      let res
      try { res = g.it.next(send) } catch (e) { if (!(e instanceof SimFault)) this.foreign(e, 'generator ' + g.name); res = { done: true } }
      g.running = false
      this.stepResult(g, res)
    }
  }

  actResolve (r) {
    if (!this.deferred.length) return
    const i = r.below(this.deferred.length)
    const d = this.deferred.splice(i, 1)[0]
    this.ev('settle', d.act)
    this.stat('fault:await-settled')
    d.resolve(this.token(d.act, d.site))
  }

  // top-level step of the driver; returns false when nothing is runnable
  topStep (i) {
    const r = this.rngFor(0x70F, i)
    const w = [this.callables.length ? 6 : 0, this.classes.length ? 2 : 0, this.gens.some(g => !g.busy) ? 5 : 0, this.deferred.length ? 5 : 0]
    if (!w.some(x => x)) return false
    const k = r.weighted(w)
    this.events++
    if (k === 0) { this.ev('top-call'); this.invoke(r.pick(this.callables), false) } else if (k === 1) this.actConstruct(r)
    else if (k === 2) this.actStep(r)
    else this.actResolve(r)
    return true
  }

  // ---- the monitor ---------------------------------------------------------------------------
  violate (inv, ctx, detail) {
    const key = `${inv}:${ctx}`
    if (!this.violations.find(v => v.key === key)) this.violations.push({ invariant: inv, key, detail })
  }

  hook (name, args) {
    const res = args[0]
    if (!this.monitor) return res
    this.events++
    this.stat('hook-calls')
    if (args.some(a => a === this.unassigned)) this.violate('H4', 'temporary-read-before-assignment' + (this.hasKnownCtx ? ':with-known-ctx' : ''), `hook ${name} received a temporary nothing was assigned to`)
    const operator = name === 'plusOperator' || name === 'tplOperator'
    const operands = operator ? args.slice(1) : args.slice(2)
    const toks = []
    let undef = 0
    operands.forEach((o, idx) => {
      if (typeof o === 'string') {
        TOKEN_RE.lastIndex = 0
        let m
        while ((m = TOKEN_RE.exec(o))) toks.push({ act: +m[1], site: +m[2], n: +m[3], idx })
      } else if (o === undefined) undef++
    })
    if (!toks.length) return res
    const last = toks[toks.length - 1]
    this.ev('hook', last.act)
    const cands = (this.siteOps[last.site] || []).map(id => this.ops[id])
    const labelOf = (site) => { const ids = this.siteOps[site]; return ids && ids.length ? this.ops[ids[0]].label : 'unknown' }
    const victimLabel = cands.length ? cands[0].label : 'unknown'
    const describe = () => `hook ${name}(${operands.map(o => typeof o === 'string' ? o : String(o)).join(', ')})`
    const keyCtx = (intruderSite) => {
      // a default of a function expression that sits *inside* the victim's own expression gets its
      // temporaries from the same provider as the victim: the two never share a name on the pinned
      // tree, so this intrusion is not the recorded shared-across-activations finding
      if (intruderSite !== undefined && labelOf(intruderSite) === NESTED_DEFAULT && !KNOWN_CTX.has(victimLabel)) return victimLabel + '<-default-of-function-expression-argument'
      const labels = [victimLabel, ...cands.map(c => c.label)]
      if (intruderSite !== undefined) labels.push(labelOf(intruderSite))
      return labels.find(l => KNOWN_CTX.has(l)) || (intruderSite !== undefined ? labelOf(intruderSite) : victimLabel)
    }
    // H1: one activation
    const foreign = toks.find(t => t.act !== last.act)
    if (foreign) {
      this.violate('H1', keyCtx(foreign.site), `operands of one operation come from two activations (a${foreign.act} site ${foreign.site} [${labelOf(foreign.site)}] among a${last.act} [${victimLabel}]): ${describe()}`)
      return res
    }
    // H2: registered tuple, fresh values
    let matched = null
    for (const c of cands) {
      const acc = c.leaves[0] === 'ACC'
      const seq = acc ? toks.filter(t => t.idx !== 0).map(t => t.site) : toks.map(t => t.site)
      const want = acc ? c.leaves.slice(1) : c.leaves
      if (seq.length === want.length && seq.every((s, i) => s === want[i])) { matched = { c, acc }; break }
    }
    if (!matched && cands.some(c => c.incomplete)) { this.stat('hook-calls-with-incomplete-registry'); return res }
    if (!matched) {
      // which token does not belong? the first one outside the innermost candidate's leaves
      // a token intrudes if no candidate operation (innermost to outermost) has its site among its leaves
      const union = new Set(cands.flatMap(c => c.leaves))
      const anyAcc = cands.some(c => c.leaves[0] === 'ACC')
      const bad = cands.length ? toks.find(t => !union.has(t.site) && !(anyAcc && t.idx === 0)) : undefined
      const unattributed = !bad && this.hasKnownCtx && !KNOWN_CTX.has(victimLabel)
      if (undef) this.violate('H3', unattributed ? 'unattributed-intruder:with-known-ctx' : keyCtx(), `an operand is undefined where a value is due: ${describe()}`)
      else this.violate('H2', unattributed ? 'unattributed-intruder:with-known-ctx' : keyCtx(bad ? bad.site : undefined), `operands do not form the operand tuple of any generated operation (sites ${toks.map(t => t.site).join(',')}; expected one of ${cands.map(c => '[' + c.leaves.join(',') + ']').join(' ')}): ${describe()}`)
      return res
    }
    for (const t of toks) {
      if (matched.acc && t.idx === 0) continue
      if (this.latest.get(t.act + '.' + t.site) !== t.n) {
        this.violate('H2', keyCtx(t.site), `stale operand: site ${t.site} of a${t.act} was evaluated again (latest n${this.latest.get(t.act + '.' + t.site)}) but the operation received n${t.n}: ${describe()}`)
        return res
      }
    }
    this.stat('hook-calls-verified')
    if (toks.length >= 3) this.stat('probe:hook-with-3+-operand-tokens')
    return res
  }
}

module.exports = { World, SimFault, KNOWN_CTX }
