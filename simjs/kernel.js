'use strict'
// Kernel of the Node engine: own PRNG (xoshiro128**), seed mixing, explicit plans, worker
// processes with fixed chunking (results independent of worker count), known-finding filter,
// delta-debugging minimiser, replay files confirmed in a fresh process, evidence.
// No Math.random, no clocks in any decision or log path.

const fs = require('fs')
const path = require('path')
const cp = require('child_process')

const ROOT = process.env.VERIF_ROOT || path.resolve(__dirname, '..')
const SIMRW = path.join(ROOT, 'simrw/target/release/simrw')
// extra V8/node flags for child processes (determinism proofs use another --hash-seed)
const NODE_ARGS = (process.env.VERIF_NODE_ARGS || '').split(' ').filter(Boolean)

// ---------------------------------------------------------------------------------------------
function fnv32 (str) {
  let h = 0x811c9dc5
  for (let i = 0; i < str.length; i++) {
    h ^= str.charCodeAt(i) & 0xff
    h = Math.imul(h, 0x01000193) >>> 0
    h ^= str.charCodeAt(i) >>> 8
    h = Math.imul(h, 0x01000193) >>> 0
  }
  return h >>> 0
}

function mix (a, b) {
  let x = (a ^ Math.imul(b, 0x9e3779b1) ^ 0x85ebca6b) >>> 0
  x ^= x >>> 16; x = Math.imul(x, 0x85ebca6b) >>> 0
  x ^= x >>> 13; x = Math.imul(x, 0xc2b2ae35) >>> 0
  x ^= x >>> 16
  x = (x + Math.imul(b ^ 0x27d4eb2f, 0x165667b1)) >>> 0
  x ^= x >>> 15; x = Math.imul(x, 0x2c1b3c6d) >>> 0
  x ^= x >>> 12
  return x >>> 0
}

class Rng {
  constructor (seed) {
    let x = seed >>> 0
    const sm = () => {
      x = (x + 0x9e3779b9) >>> 0
      let z = x
      z = Math.imul(z ^ (z >>> 16), 0x85ebca6b) >>> 0
      z = Math.imul(z ^ (z >>> 13), 0xc2b2ae35) >>> 0
      return (z ^ (z >>> 16)) >>> 0
    }
    this.s = [sm(), sm(), sm(), sm()]
  }

  next () {
    const s = this.s
    const r = Math.imul(s[1], 5) >>> 0
    const result = Math.imul(((r << 7) | (r >>> 25)) >>> 0, 9) >>> 0
    const t = (s[1] << 9) >>> 0
    s[2] = (s[2] ^ s[0]) >>> 0
    s[3] = (s[3] ^ s[1]) >>> 0
    s[1] = (s[1] ^ s[2]) >>> 0
    s[0] = (s[0] ^ s[3]) >>> 0
    s[2] = (s[2] ^ t) >>> 0
    s[3] = ((s[3] << 11) | (s[3] >>> 21)) >>> 0
    return result
  }

  below (n) { return n <= 1 ? 0 : this.next() % n }
  range (lo, hi) { return hi <= lo ? lo : lo + this.below(hi - lo + 1) }
  chance (num, den) { return this.below(den) < num }
  pick (xs) { return xs[this.below(xs.length)] }
  weighted (w) {
    const total = w.reduce((a, b) => a + b, 0)
    if (!total) return 0
    let r = this.below(total)
    for (let i = 0; i < w.length; i++) { if (r < w[i]) return i; r -= w[i] }
    return w.length - 1
  }

  shuffle (xs) {
    const a = xs.slice()
    for (let i = a.length - 1; i > 0; i--) { const j = this.below(i + 1); const t = a[i]; a[i] = a[j]; a[j] = t }
    return a
  }
}

// ---------------------------------------------------------------------------------------------
// real rewriter through `simrw batch`
function batchRewrite (jobs) {
  if (!jobs.length) return []
  const r = cp.spawnSync(SIMRW, ['batch'], { input: JSON.stringify({ jobs }), maxBuffer: 1 << 30, encoding: 'utf8' })
  if (r.status !== 0) throw new Error('simrw batch failed: ' + (r.stderr || r.error))
  return JSON.parse(r.stdout).results
}

function jobKey (job) {
  return JSON.stringify([job.cfg, job.prng_seed || 1, job.file, job.code, job.fs || null, job.log_level || 'off', job.gen || null])
}

class RewriteTable {
  constructor () { this.map = new Map() }
  fill (jobs) {
    const need = []
    const seen = new Set()
    for (const j of jobs) {
      const k = jobKey(j)
      if (!this.map.has(k) && !seen.has(k)) { seen.add(k); need.push(j) }
    }
    const res = batchRewrite(need)
    need.forEach((j, i) => this.map.set(jobKey(j), res[i]))
  }

  get (job) {
    const k = jobKey(job)
    if (!this.map.has(k)) this.fill([job])
    return this.map.get(k)
  }
}

// ---------------------------------------------------------------------------------------------
function loadKnown () {
  try {
    return JSON.parse(fs.readFileSync(path.join(ROOT, 'known_findings.json'), 'utf8')).findings || []
  } catch (e) { return [] }
}
function isKnown (known, prop, key) {
  return known.find(k => k.property === prop && k.status === 'known' && k.key === key)
}

function slug (s) { return s.replace(/[^A-Za-z0-9]+/g, '_').replace(/^_+|_+$/g, '').slice(0, 60) }

// child: runs [from,to) in this process
async function workerMain (engine, seed, from, to, tier) {
  const plans = []
  for (let run = from; run < to; run++) plans.push(engine.plan(seed, run, tier))
  for (let i = 0; i < plans.length; i++) {
    const plan = plans[i]
    const run = from + i
    process.stdout.write(JSON.stringify({ run, start: true }) + '\n')
    // one rewriter process per run, fed with exactly this run's jobs in plan order: what a run
    // sees is a function of its plan only, so a replay in a fresh process sees the same
    const table = new RewriteTable()
    table.fill(engine.jobs(plan))
    const report = await engine.execute(plan, table)
    const line = { run, report }
    if (report.violations.length) line.plan = plan
    if (run < 2 || run % 997 === 0) line.sample = engine.summarise(plan)
    process.stdout.write(JSON.stringify(line) + '\n')
  }
}

function execFresh (engine, plan, timeoutMs, extraEnv) {
  const tmpdir = path.join(ROOT, 'replays/tmp')
  fs.mkdirSync(tmpdir, { recursive: true })
  const file = path.join(tmpdir, `cand-${process.pid}-${fnv32(JSON.stringify(plan)).toString(16)}.json`)
  fs.writeFileSync(file, JSON.stringify({ property: engine.id, plan }))
  const r = cp.spawnSync(process.execPath, NODE_ARGS.concat([path.join(__dirname, 'main.js'), 'exec', file]), {
    encoding: 'utf8', maxBuffer: 1 << 28, timeout: timeoutMs || 60000, env: Object.assign({}, process.env, extraEnv || {})
  })
  try { fs.unlinkSync(file) } catch (e) {}
  if (r.error) return { error: String(r.error.code || r.error) }
  try { return { report: JSON.parse(r.stdout.trim().split('\n').pop()) } } catch (e) { return { error: 'bad exec output: ' + (r.stdout || '').slice(0, 200) + (r.stderr || '').slice(0, 400) } }
}

function hasSame (report, v) { return report.violations.find(x => x.invariant === v.invariant && x.key === v.key) }

function minimise (engine, plan, v, budget) {
  let cur = plan; let curv = v; let execs = 0; let progress = true
  while (progress && execs < budget) {
    progress = false
    for (const cand of engine.shrink(cur)) {
      if (execs >= budget) break
      execs++
      const r = execFresh(engine, cand, 60000)
      if (r.report) {
        const nv = hasSame(r.report, v)
        if (nv) { cur = cand; curv = nv; progress = true; break }
      }
    }
  }
  return { plan: cur, v: curv, execs }
}

function runChunks (engine, seed, tier, total, workers, onLine) {
  const chunk = engine.chunk || 25
  const chunks = []
  for (let a = 0; a < total; a += chunk) chunks.push([a, Math.min(total, a + chunk)])
  return new Promise((resolve) => {
    let next = 0; let active = 0
    const errors = []
    const launch = () => {
      while (active < workers && next < chunks.length) {
        const [from, to] = chunks[next++]
        active++
        const child = cp.spawn(process.execPath, NODE_ARGS.concat([path.join(__dirname, 'main.js'), 'worker', engine.id, String(seed), String(from), String(to), tier]), { stdio: ['ignore', 'pipe', 'pipe'] })
        let buf = ''; let err = ''; let done = 0; let lastStart = null
        const timer = setTimeout(() => { errors.push(`chunk ${from}..${to} timed out at run ${lastStart}`); child.kill('SIGKILL') }, engine.chunkTimeoutMs || 600000)
        child.stdout.on('data', d => {
          buf += d
          let i
          while ((i = buf.indexOf('\n')) >= 0) {
            const l = buf.slice(0, i); buf = buf.slice(i + 1)
            if (!l) continue
            let o
            try { o = JSON.parse(l) } catch (e) { continue }
            if (o.start) { lastStart = o.run; continue }
            done++
            onLine(o)
          }
        })
        child.stderr.on('data', d => { if (err.length < 4000) err += d })
        child.on('close', (code) => {
          clearTimeout(timer)
          if (done < to - from) errors.push(`worker for runs ${from}..${to} ended early (code ${code}) at run ${lastStart}: ${err.slice(0, 1500)}`)
          active--
          if (next >= chunks.length && active === 0) resolve(errors)
          else launch()
        })
      }
      if (chunks.length === 0) resolve(errors)
    }
    launch()
  })
}

async function checkMain (engine, tier, seed, workers, runsOverride) {
  const t0 = process.hrtime.bigint()
  const known = loadKnown()
  const total = runsOverride || engine.runs(tier)
  console.log(`VERIF_SEED=${seed} property=${engine.id} tier=${tier} runs=${total} chunk=${engine.chunk || 25} workers=${workers}`)
  const lines = []
  const harnessErrors = await runChunks(engine, seed, tier, total, workers, (o) => lines.push(o))
  lines.sort((a, b) => a.run - b.run)
  let evaluations = 0; let events = 0
  const stats = {}; const shapes = new Set(); const cells = new Set(); const samples = []; const notes = {}
  let digest = 0xabcd
  const found = []
  for (const l of lines) {
    const rep = l.report
    evaluations++
    events += rep.events
    digest = mix(digest, mix(l.run, rep.logDigest >>> 0))
    if (process.env.VERIF_DIGESTS) console.log(`DIGEST run=${l.run} ${(rep.logDigest >>> 0).toString(16)}`)
    for (const k of Object.keys(rep.stats)) stats[k] = (stats[k] || 0) + rep.stats[k]
    for (const s of rep.shapes) shapes.add(s)
    for (const c of rep.cells) cells.add(c)
    for (const n of rep.notes || []) notes[n] = (notes[n] || 0) + 1
    if (l.sample && samples.length < 6) samples.push(l.sample)
    for (const v of rep.violations) found.push({ run: l.run, v, plan: l.plan })
  }
  const knownSeen = {}; const newByKey = new Map()
  for (const f of found) {
    const k = isKnown(known, engine.id, f.v.key)
    if (k) { knownSeen[f.v.key] = knownSeen[f.v.key] || { n: 0, what: k.what }; knownSeen[f.v.key].n++ } else if (!newByKey.has(f.v.key)) newByKey.set(f.v.key, f)
  }
  for (const k of Object.keys(knownSeen).sort()) console.log(`KNOWN-FINDING: property=${engine.id} ${knownSeen[k].what} [${k}] (seen ${knownSeen[k].n} times)`)

  let violationsOut = 0; const vlines = []; const reported = new Set(); let processed = 0
  const replDir = path.join(ROOT, 'replays', engine.id)
  for (const key of [...newByKey.keys()].sort()) {
    if (violationsOut >= 6 || processed >= 16) break
    processed++
    const f = newByKey.get(key)
    const alone = execFresh(engine, f.plan, 120000)
    let target = null
    if (alone.report) {
      target = hasSame(alone.report, f.v) || alone.report.violations.find(o => !isKnown(known, engine.id, o.key))
    }
    if (!target) { harnessErrors.push(`violation ${key} of run ${f.run} did not reproduce in a fresh process: ${(f.v.detail || '').slice(0, 200)} ${alone.error || ''}`); continue }
    if (reported.has(target.key)) continue
    reported.add(target.key)
    const m = minimise(engine, f.plan, target, 200)
    fs.mkdirSync(replDir, { recursive: true })
    const file = path.join(replDir, `${slug(m.v.key)}-seed${seed}-run${f.run}.json`)
    fs.writeFileSync(file, JSON.stringify({ property: engine.id, seed, run: f.run, invariant: m.v.invariant, key: m.v.key, detail: m.v.detail, minimised: m.execs > 0, plan: m.plan }, null, 1))
    violationsOut++
    vlines.push(`VIOLATION property=${engine.id} replay=${file} invariant=${m.v.invariant} key=${m.v.key}${m.v.key !== key ? ` (first observed in-process as ${key})` : ''} :: ${(m.v.detail || '').slice(0, 300)}`)
  }
  if (newByKey.size > processed) console.log(`NOTE: ${newByKey.size - processed} further violation keys were observed and not individually replayed`)

  // generator health: runs whose workload could not even be produced/loaded do not count as exploration
  const genFail = Object.keys(notes).filter(n => n.startsWith('GEN:')).reduce((a, n) => a + notes[n], 0)
  if (genFail * 50 > evaluations) harnessErrors.push(`${genFail} of ${evaluations} runs had an unusable generated workload (first: ${Object.keys(notes).find(n => n.startsWith('GEN:'))})`)
  const wall = Number(process.hrtime.bigint() - t0) / 1e9
  const zero = (engine.expectedProbes || []).filter(p => !stats[p])
  if (zero.length) console.log('WARNING probes at zero: ' + JSON.stringify(zero))
  const pickStats = (pfx) => Object.fromEntries(Object.keys(stats).sort().filter(k => k.startsWith(pfx)).map(k => [k, stats[k]]))
  const other = Object.fromEntries(Object.keys(stats).sort().filter(k => !k.startsWith('probe:') && !k.startsWith('fault:')).map(k => [k, stats[k]]))
  const evidence = {
    property_id: engine.id,
    tier,
    seed,
    level: engine.level,
    coverage: {
      evaluations,
      distinct_nontrivial: shapes.size,
      rule: engine.rule,
      samples,
      events,
      cells_covered: cells.size,
      cells: [...cells].sort().slice(0, 200),
      fault_kinds_fired: pickStats('fault:'),
      probes: pickStats('probe:'),
      counters: other,
      probes_at_zero: zero,
      runs_per_hour: wall > 0 ? Math.floor(evaluations / wall * 3600) : 0,
      events_per_hour: wall > 0 ? Math.floor(events / wall * 3600) : 0,
      simulated_time: 'n/a - the system under test has no clock, timer or deadline; logical steps (events) are reported instead',
      components: engine.components,
      known_findings_seen: Object.keys(knownSeen).sort().map(k => ({ key: k, count: knownSeen[k].n })),
      notes,
      all_runs_digest: (digest >>> 0).toString(16),
      harness_errors: harnessErrors,
      workers,
      exhaustive: false
    },
    assumptions: engine.assumptions,
    wall_s: wall,
    violations: violationsOut
  }
  fs.mkdirSync(path.join(ROOT, 'evidence'), { recursive: true })
  fs.writeFileSync(path.join(ROOT, 'evidence', engine.id + '.json'), JSON.stringify(evidence, null, 1))
  console.log(`property=${engine.id} runs=${evaluations} events=${events} distinct_nontrivial=${shapes.size} cells=${cells.size} digest=${(digest >>> 0).toString(16)} wall_s=${wall.toFixed(1)}`)
  for (const l of vlines) console.log(l)
  if (violationsOut > 0) return 1
  if (harnessErrors.length) { for (const h of harnessErrors) console.error('HARNESS-ERROR: ' + h); return 2 }
  if (evaluations < total) { console.error(`HARNESS-ERROR: only ${evaluations} of ${total} runs completed`); return 2 }
  return 0
}

async function execMain (engines, file) {
  const v = JSON.parse(fs.readFileSync(file, 'utf8'))
  const engine = engines[v.property]
  if (!engine) { console.error('unknown property'); return 2 }
  const table = new RewriteTable()
  table.fill(engine.jobs(v.plan))
  const rep = await engine.execute(v.plan, table)
  process.stdout.write(JSON.stringify(rep) + '\n')
  return rep.violations.length ? 1 : 0
}

async function replayMain (engines, prop, file) {
  const rf = JSON.parse(fs.readFileSync(file, 'utf8'))
  const engine = engines[rf.property || prop]
  if (!engine) { console.error('unknown property'); return 2 }
  process.env.VERIF_LOG = '1'
  const known = loadKnown()
  const table = new RewriteTable()
  table.fill(engine.jobs(rf.plan))
  const rep = await engine.execute(rf.plan, table)
  for (const l of rep.log || []) console.log('  ' + l)
  let rc = 0
  for (const v of rep.violations) {
    const k = isKnown(known, engine.id, v.key)
    if (k) console.log(`KNOWN-FINDING: property=${engine.id} ${k.what} [${v.key}]`)
    else { console.log(`VIOLATION property=${engine.id} replay=${file} invariant=${v.invariant} key=${v.key} :: ${v.detail}`); rc = 1 }
  }
  if (!rep.violations.length) console.log(`replay: no violation (expected ${rf.invariant} ${rf.key})`)
  return rc
}

module.exports = { Rng, mix, fnv32, RewriteTable, batchRewrite, workerMain, checkMain, execMain, replayMain, ROOT, SIMRW }
