'use strict'
// C06 workload: generated modules whose every operand of every instrumentable operation is a
// probe into the simulator's world `$`. The program is kept as a tree (so that the minimiser
// can drop functions / statements without renumbering probe sites) and rendered to text.

// ---------------------------------------------------------------------------------------------
// tree generation

function genProgram (rng, o) {
  const P = { strict: rng.chance(1, 2), funcs: [], nextSite: 1, nextOp: 1, nextName: 1, known: !!o.allowKnownCtx }
  const nFuncs = rng.range(2, o.maxFuncs || 6)
  for (let i = 0; i < nFuncs; i++) P.funcs.push(genFunc(rng, P, 0, null))
  return P
}

function fresh (P, p) { return p + (P.nextName++) }

// non-operation contexts an instrumented expression can sit in
const WRAPS = ['array', 'object', 'argument', 'new', 'typeof', 'logical', 'comma', 'computed-key', 'spread', 'tagged', 'iife', 'nested-call']

const FUNC_KINDS = ['decl', 'decl', 'arrowBlock', 'arrowExpr', 'gen', 'async', 'asyncGen', 'class', 'objlit', 'decl-default', 'arrow-default']

function genFunc (rng, P, depth, forced) {
  let kind = forced || rng.pick(FUNC_KINDS)
  // contexts of the known finding F5 (parameter default of a non-arrow function) only where allowed
  if (kind === 'decl-default' && !P.known) kind = 'arrow-default'
  const f = { kind, name: fresh(P, kind === 'class' ? 'C' : 'f'), body: [], isGen: kind === 'gen' || kind === 'asyncGen', isAsync: kind === 'async' || kind === 'asyncGen' }
  const ctx = { P, f, depth, loop: 0 }
  if (kind === 'arrowExpr') {
    f.expr = genOpExpr(rng, ctx, 2, 'arrow-expr-body')
    return f
  }
  if (kind === 'decl-default' || kind === 'arrow-default') {
    f.def = genOpExpr(rng, ctx, 1, kind === 'decl-default' ? 'param-default:function' : 'param-default:arrow')
  }
  if (kind === 'objlit') {
    f.name = fresh(P, 'o')
    f.members = []
    const n = rng.range(1, 3)
    for (let i = 0; i < n; i++) {
      const mk = rng.pick(['method', 'getter', 'setter', 'genmethod'])
      const m = { kind: mk, name: fresh(P, 'm'), body: [], isGen: mk === 'genmethod' }
      m.body = genBlock(rng, { P, f: m, depth: depth + 1, loop: 0 }, 1, 'object-' + mk)
      f.members.push(m)
    }
    return f
  }
  if (kind === 'class') {
    f.members = []
    const n = rng.range(1, 4)
    for (let i = 0; i < n; i++) {
      let mk = rng.pick(['method', 'method', 'getter', 'static', 'ctor', 'field', 'staticField', 'staticBlock'])
      if (mk === 'field' && !P.known) mk = 'method'
      if (mk === 'ctor' && f.members.find(m => m.kind === 'ctor')) mk = 'method'
      const m = { kind: mk, name: fresh(P, 'm'), body: [] }
      const mctx = { P, f: m, depth: depth + 1, loop: 0 }
      if (mk === 'field') m.expr = genOpExpr(rng, mctx, 1, 'class-field:instance')
      else if (mk === 'staticField') m.expr = genOpExpr(rng, mctx, 1, 'class-field:static')
      else m.body = genBlock(rng, mctx, 1, mk === 'staticBlock' ? 'static-block' : mk === 'ctor' ? 'constructor' : mk === 'getter' ? 'getter' : 'method')
      f.members.push(m)
    }
    // a derived class: when it has a constructor, its first statement is `super(<instrumented expression>)`
    if (rng.chance(1, 3)) {
      f.derived = true
      const c = f.members.find(m => m.kind === 'ctor')
      if (c) c.superExpr = genOpExpr(rng, { P, f: c, depth: depth + 1, loop: 0 }, 1, 'constructor')
    }
    return f
  }
  const label = f.isGen ? 'generator' : f.isAsync ? 'async' : kind.startsWith('arrow') ? 'arrow-body' : 'body'
  f.body = genBlock(rng, ctx, depth > 0 ? 1 : 2, label)
  return f
}

function genBlock (rng, ctx, nest, label) {
  const n = rng.range(1, 4)
  const out = []
  for (let i = 0; i < n; i++) out.push(genStmt(rng, ctx, nest, label))
  return out
}

function genStmt (rng, ctx, nest, label) {
  const P = ctx.P
  const nw = nest > 0 && P.nextSite < 200 ? 2 : 0
  const k = rng.weighted([6, 4, 2, nw, nw, nw, nw, nw, nw, ctx.depth < 2 ? nw : 0, nw, 2, ctx.depth < 2 ? 1 : 0, nw / 2, nw / 2, nw / 2, 1])
  switch (k) {
    case 0:
      // an immediately invoked async arrow: its body suspends at an await while the enclosing block goes on
      // (never inside a loop: two suspended instances of one statement in one activation would make 'the latest evaluation of a site' ambiguous)
      if (ctx.loop === 0 && rng.chance(1, 12)) return { t: 'expr', e: genOpExpr(rng, { ...ctx, f: { ...ctx.f, isAsync: true, isGen: false } }, 2, 'async-iife'), wrap: 'async-iife' }
      return { t: 'expr', e: genOpExpr(rng, ctx, 2, label), wrap: rng.chance(1, 3) ? rng.pick(WRAPS.concat(ctx.f.isAsync ? ['await'] : [], ctx.f.isGen ? ['yield'] : [])) : null }
    case 1: return { t: 'const', name: fresh(P, 'v'), e: genOpExpr(rng, ctx, 2, label), wrap: rng.chance(1, 3) ? rng.pick(WRAPS.concat(['destructuring-default'])) : null }
    case 2: return { t: 'ret', e: genOpExpr(rng, ctx, 2, label) }
    case 3: return { t: 'if', c: genOpExpr(rng, ctx, 1, 'if-test'), then: genBlock(rng, ctx, nest - 1, label), els: rng.chance(1, 2) ? genBlock(rng, ctx, nest - 1, label) : null }
    case 4: return { t: 'for', n: rng.range(1, 3), v: fresh(P, 'i'), body: genBlock(rng, { ...ctx, loop: ctx.loop + 1 }, nest - 1, 'loop-body') }
    case 5: return { t: 'forof', v: fresh(P, 'x'), e: genOpExpr(rng, ctx, 1, 'loop-head'), body: genBlock(rng, { ...ctx, loop: ctx.loop + 1 }, nest - 1, 'loop-body') }
    case 6: return { t: 'while', n: rng.range(1, 2), v: fresh(P, 'w'), c: genOpExpr(rng, ctx, 1, 'loop-head'), body: genBlock(rng, { ...ctx, loop: ctx.loop + 1 }, nest - 1, 'loop-body') }
    case 7: return { t: 'switch', c: genOpExpr(rng, ctx, 1, 'switch-discriminant'), cases: [genBlock(rng, ctx, nest - 1, 'switch-case'), genBlock(rng, ctx, nest - 1, 'switch-case')] }
    case 8: return { t: 'try', body: genBlock(rng, ctx, nest - 1, 'try'), handler: genBlock(rng, ctx, nest - 1, 'catch'), finalizer: rng.chance(1, 2) ? genBlock(rng, ctx, nest - 1, 'finally') : null }
    case 9: return { t: 'nested', f: genFunc(rng, P, ctx.depth + 1, rng.pick(['decl', 'arrowBlock', 'arrowExpr', 'gen', 'async', 'class', 'objlit', P.known ? 'decl-default' : 'arrow-default'])) }
    case 10: return { t: 'block', labelled: rng.chance(1, 3), body: genBlock(rng, ctx, nest - 1, label) }
    // a string statement that reads like a directive but is not in the prologue (concatenated bundles)
    case 16: return { t: 'strstmt', text: rng.pick(["'use strict'", '"use strict"', "'use client'", "'use asm'"]) }
    case 11: return { t: 'addassign', target: rng.pick(['local', 'local', 'member', 'member', 'call-member', 'call-computed', 'computed-key-call']), e: genOpExpr(rng, ctx, 1, label, true), id: P.nextOp++ }
    case 13: return { t: 'dowhile', n: rng.range(0, 1), v: fresh(P, 'd'), c: genOpExpr(rng, ctx, 1, 'loop-head'), body: genBlock(rng, { ...ctx, loop: ctx.loop + 1 }, nest - 1, 'loop-body') }
    case 14: return { t: 'forin', v: fresh(P, 'k'), body: genBlock(rng, { ...ctx, loop: ctx.loop + 1 }, nest - 1, 'loop-body') }
    case 15: return { t: 'switchlex', v: fresh(P, 'v'), c: genOpExpr(rng, ctx, 1, 'switch-discriminant'), e1: genOpExpr(rng, ctx, 1, 'switch-case-clause'), e2: genOpExpr(rng, ctx, 1, 'switch-case-clause') }
    default: return { t: 'closure', n: rng.range(1, 2), v: fresh(P, 'j'), f: genFunc(rng, P, ctx.depth + 1, rng.pick(['arrowBlock', 'arrowExpr'])) }
  }
}

// an instrumentable operation whose operands are probes (or nested operations)
function genOpExpr (rng, ctx, d, label, nested) {
  const P = ctx.P
  const f = ctx.f
  // keep programs small: many short, diverse runs beat a few huge ones
  if (P.nextSite > 160) d = 0
  const operand = () => {
    if (d > 0 && rng.chance(1, 6)) {
      // a conditional whose branches need different numbers of temporaries
      const mk = () => rng.chance(1, 2) ? { t: 'probe', site: P.nextSite++ } : genOpExpr(rng, ctx, d - 1, label, true)
      return { t: 'cond', site: P.nextSite++, cons: mk(), alt: mk() }
    }
    if (d > 0 && P.known && rng.chance(1, 8)) {
      // a function expression passed as an argument inside the instrumented expression, called back
      // synchronously; its parameter default holds an instrumented operation of its own
      // when the surrounding expression is itself in a context whose temporaries are shared across
      // activations (a non-arrow parameter default, an instance field), so are this default's: plain known label
      const sharedCtx = ['param-default:function', 'class-field:instance', 'param-default:function-expression-argument'].includes(label)
      return { t: 'fnarg', site: P.nextSite++, def: genOpExpr(rng, { ...ctx, f: { isGen: false, isAsync: false } }, 0, sharedCtx ? 'param-default:function' : 'param-default:function-expression-argument', true) }
    }
    // a comma expression as an operand: something is evaluated and dropped, then an instrumented operation
    if (d > 0 && rng.chance(1, 10)) return { t: 'seq', site: P.nextSite++, inner: genOpExpr(rng, ctx, d - 1, label, true) }
    if (d > 0 && rng.chance(1, 3)) return genOpExpr(rng, ctx, d - 1, label, true)
    if (f.isGen && rng.chance(1, 3)) return { t: 'yield', site: P.nextSite++ }
    if (f.isAsync && rng.chance(1, 3)) return { t: 'await', site: P.nextSite++ }
    return { t: 'probe', site: P.nextSite++ }
  }
  const id = P.nextOp++
  // an optional chain may yield undefined: only as a stand-alone operation, never as an operand
  // now and then an operation with many operands (temporaries counted in two digits)
  if (!nested && P.nextSite < 120 && rng.chance(1, 40)) {
    let n = rng.pick([9, 10, 11, 12, 16, 17, 33])
    // temporaries counted past 64 and past 128 (no draw: earlier choices stay as they were)
    if (n === 33) n = [33, 66, 130][(P.nextSite + id) % 3]
    const args = []
    for (let i = 0; i < n; i++) args.push({ t: 'probe', site: P.nextSite++ })
    return rng.chance(1, 2) ? { t: 'call', id, label, m: 'concat', recv: { t: 'probe', site: P.nextSite++ }, args, recvShape: 'plain', form: 'method' } : { t: 'tpl', id, label, ops: args }
  }
  // a template whose substitutions are all arithmetic (numbers, no string operand survives): whatever the
  // rewriter decides to do with it, it must not leave a temporary unassigned
  if (!nested && rng.chance(1, 25)) return { t: 'tplarith', id, label, sites: [P.nextSite++, P.nextSite++, P.nextSite++], forms: [rng.below(5), rng.below(5), rng.below(5)], n: rng.range(1, 3) }
  const pickOp = rng.below(nested ? 8 : 10)
  if (pickOp === 7) {
    // a configured method that may be called without a callee: aloneMethod(arg, arg, ...)
    const n = rng.range(1, 3)
    const args = []
    for (let i = 0; i < n; i++) args.push(operand())
    return { t: 'alone', id, label, args }
  }
  if (pickOp === 9 && !nested) {
    // optional call on a non-member callee followed by a configured method: f?.(arg).trim()
    return { t: 'optfn', id, label, site: P.nextSite++, arg: { t: 'probe', site: P.nextSite++ }, m: rng.pick(['trim', 'trimEnd']) }
  }
  switch (pickOp === 8 ? 7 : pickOp) {
    case 0: case 1: case 2: {
      const n = rng.range(2, 3)
      const ops = []
      for (let i = 0; i < n; i++) ops.push(operand())
      return { t: 'plus', id, label, ops, paren: !!nested || rng.chance(1, 4) }
    }
    case 3: case 4: {
      const n = rng.range(1, 3)
      const ops = []
      for (let i = 0; i < n; i++) ops.push(operand())
      // now and then a literal placeholder among them (`${1}`, `${'px'}`)
      if (rng.chance(1, 6)) ops.splice(rng.below(ops.length + 1), 0, { t: 'lit', v: rng.pick(['1', "'px'", 'null', '0.5']) })
      return { t: 'tpl', id, label, ops }
    }
    case 5: return { t: 'call', id, label, m: rng.pick(['trim', 'trimStart', 'trimEnd']), recv: operand(), args: [], recvShape: rng.pick(['plain', 'paren']), form: rng.pick(['method', 'method', 'proto-call']) }
    case 6: {
      const n = rng.range(1, 2)
      const args = []
      const recv = operand()
      for (let i = 0; i < n; i++) args.push(operand())
      return { t: 'call', id, label, m: 'concat', recv, args, recvShape: rng.pick(['plain', 'paren']), form: rng.pick(['method', 'method', 'method', 'proto-call', 'proto-apply', 'spread']) }
    }
    default:
      // an optional chain whose argument is a closure (called back at once) that holds an optional
      // chain with a configured method: the inner chain belongs to the closure's activation
      if (rng.chance(1, 3)) return { t: 'optclosure', id, label, site: P.nextSite++, m: rng.pick(['trim', 'trimEnd']), shape: rng.below(7) }
      return { t: 'optcall', id, label, site: P.nextSite++, m: rng.pick(['trim', 'trimEnd']) }
  }
}

// ---------------------------------------------------------------------------------------------
// rendering + registry of operations (leaf probe sites in evaluation order)

function render (P) {
  const lines = []
  const ops = {} // id -> {hook, leaves:[site|'ACC'], label, sites}
  const sites = {} // site -> {op, label}
  const names = []
  let ind = 1
  let labelCounter = 0
  const emit = (s) => lines.push('  '.repeat(ind) + s)

  // alternatives: every sequence of leaf probe sites the operand values of `e` can carry (a
  // conditional operand contributes the leaves of whichever branch runs)
  let overflow = false
  function cat (lists) {
    let acc = [[]]
    for (const alts of lists) {
      const next = []
      for (const a of acc) for (const b of alts) { if (next.length < 256) next.push(a.concat(b)); else overflow = true }
      acc = next
    }
    return acc
  }
  function altsOf (e) {
    switch (e.t) {
      case 'probe': case 'yield': case 'await': case 'fnarg': return [[e.site]]
      case 'optcall': case 'optclosure': return [[e.site]]
      case 'tplarith': return [[]]
      case 'optfn': return [[e.arg.site]]
      case 'alone': return cat(e.args.map(altsOf))
      case 'cond': return altsOf(e.cons).concat(altsOf(e.alt))
      case 'seq': return altsOf(e.inner)
      case 'lit': return [[]]
      case 'plus': case 'tpl': return cat(e.ops.map(altsOf))
      case 'call': return cat([altsOf(e.recv)].concat(e.args.map(altsOf)))
    }
    return [[]]
  }
  function leavesOf (e) { return altsOf(e)[0] }
  let regN = 0
  function regAlts (id, hook, alts, label, acc) {
    // when the alternatives of an operation were cut off, its registry entry is incomplete: the
    // monitor must not read a missing tuple as a violation
    const incomplete = overflow
    overflow = false
    alts.forEach((leaves, i) => {
      ops[i === 0 ? id : id + '~' + i] = { hook, leaves: acc ? ['ACC'].concat(leaves) : leaves, label, incomplete }
      regN++
    })
  }
  function reg (e, hook, leaves, label) {
    overflow = false
    const alts = altsOf(e)
    regAlts(e.id, hook, alts, label, false)
  }
  // every nested operation is an operation of its own: register bottom-up
  function ex (e, A) {
    switch (e.t) {
      case 'probe': return `$.p(${A}, ${e.site})`
      case 'yield': return `(yield $.y(${A}, ${e.site}))`
      case 'await': return `(await $.d(${A}, ${e.site}))`
      case 'fnarg': return `$.k(${A}, ${e.site}, function (a2, p = ${ex(e.def, 'a2')}) { return p; })`
      case 'cond': return `($.c(${A}, ${e.site}) ? ${ex(e.cons, A)} : ${ex(e.alt, A)})`
      case 'seq': return `($.p(${A}, ${e.site}), ${ex(e.inner, A)})`
      case 'lit': return e.v
      case 'plus': {
        const parts = e.ops.map(o => ex(o, A))
        // nested `+` operands are flattened by the rewriter into one hook call: only the outermost
        // registers, unless the nested one is not a plain `+` (then it is an operation of its own)
        // `a + b + c` is ((a + b) + c): one hook call per prefix of two or more operands
        for (let n = 2; n < e.ops.length; n++) {
          overflow = false
          const palts = cat(e.ops.slice(0, n).map(altsOf))
          regAlts(e.id + '.' + n, 'plusOperator', palts, e.label, false)
        }
        reg(e, 'plusOperator', leavesOf(e), e.label)
        const s = parts.join(' + ')
        return e.paren ? `(${s})` : s
      }
      case 'tpl': {
        const parts = e.ops.map(o => ex(o, A))
        reg(e, 'tplOperator', leavesOf(e), e.label)
        return '`' + parts.map((p, i) => `${i ? '|' : 'q'}\${${p}}`).join('') + '`'
      }
      case 'call': {
        const r = ex(e.recv, A)
        const needParen = e.recv.t === 'plus' || e.recv.t === 'yield' || e.recv.t === 'await' || e.recv.t === 'cond' || e.recvShape === 'paren'
        const args = e.args.map(o => ex(o, A))
        reg(e, e.m === 'concat' ? 'concat' : 'trim', leavesOf(e), e.label)
        if (e.form === 'proto-call') return `String.prototype.${e.m}.call(${[r].concat(args).join(', ')})`
        if (e.form === 'proto-apply') return `String.prototype.${e.m}.apply(${r}, [${args.join(', ')}])`
        if (e.form === 'spread') return `${needParen ? `(${r})` : r}.${e.m}(...[${args.join(', ')}])`
        return `${needParen ? `(${r})` : r}.${e.m}(${args.join(', ')})`
      }
      case 'alone': {
        const args = e.args.map(o => ex(o, A))
        reg(e, 'aloneMethod', null, e.label)
        return `aloneMethod(${args.join(', ')})`
      }
      case 'optfn': {
        reg(e, 'trim', null, e.label)
        return `$.q(${A}, ${e.site})?.(${ex(e.arg, A)}).${e.m}()`
      }
      case 'optcall': {
        reg(e, 'trim', [e.site], e.label)
        return `$.o(${A}, ${e.site})?.${e.m}()`
      }
      case 'tplarith': {
        const arith = (i) => { const p = `$.p(${A}, ${e.sites[i]})`; return [`${p} * 1`, `-${p}`, `+${p}`, `${p} - 0`, `~${p}`][e.forms[i]] }
        return '`' + Array.from({ length: e.n }, (_, i) => `${i ? 'px' : ''}\${${arith(i)}}`).join('') + 'em`'
      }
      case 'optclosure': {
        reg(e, 'trim', [e.site], e.label)
        const inner = `$.o(${A}, ${e.site})?.${e.m}()`
        switch (e.shape) {
          case 0: return `$.n([1])?.map((x2) => ${inner})`
          case 1: return `$.n([1])?.map(function (x2) { return ${inner}; })`
          case 2: return `$.n({ f: (g) => g() })?.f(() => ${inner})`
          case 3: return `$.n([$.o(${A}, ${e.site})])?.map((x2) => x2?.${e.m}())`
          case 5: return `$.n({ f: (o) => o.v })?.f({ get v() { return ${inner}; } })`
          case 6: return `$.n({ f: (o) => { o.v = 1; return 0; } })?.f({ set v(x2) { ${inner}; } })`
          default: return `$.n({ f: (g) => g() })?.f?.(function () { return [${inner}]; })`
        }
      }
    }
    return "''"
  }

  function wrap (w, e) {
    switch (w) {
      case 'array': return `[${e}, 1]`
      case 'object': return `({ k: ${e} })`
      case 'argument': return `$.n(${e})`
      case 'new': return `new $.K(${e})`
      case 'typeof': return `typeof (${e})`
      case 'logical': return `(${e} || $.n(0))`
      case 'comma': return `(0, ${e})`
      case 'computed-key': return `({ [${e}]: 1 })`
      case 'spread': return `[...[${e}]]`
      case 'tagged': return `$.tag\`x\${${e}}y\``
      case 'iife': return /\b(yield|await)\b/.test(e) ? `(0, ${e})` : `(() => ${e})()`
      case 'async-iife': return `(async () => ${e})().catch($.ac)`
      case 'nested-call': return `$.n($.n(${e}), 2)`
      case 'await': return `(await (${e}))`
      case 'yield': return `(yield (${e}))`
    }
    return e
  }
  function block (stmts, A, f) { for (const s of stmts) stmt(s, A, f) }

  function stmt (s, A, f) {
    switch (s.t) {
      case 'expr': {
        const e = wrap(s.wrap, ex(s.e, A))
        emit(`void (${e});`)
        break
      }
      case 'const':
        if (s.wrap === 'destructuring-default') emit(`const { ${s.name} = ${ex(s.e, A)} } = {};`)
        else emit(`const ${s.name} = ${wrap(s.wrap, ex(s.e, A))};`)
        break
      case 'dowhile':
        emit(`let ${s.v} = 0;`)
        emit('do {'); ind++; block(s.body, A, f); ind--; emit(`} while (${s.v}++ < ${s.n} && $.t(${ex(s.c, A)}));`)
        break
      case 'forin':
        emit(`for (const ${s.v} in { k1: 1, k2: 2 }) {`); ind++; block(s.body, A, f); ind--; emit('}')
        break
      case 'switchlex':
        // case clauses are not blocks: the lexical declarations and the temporaries live in the enclosing block
        emit(`switch ($.t(${ex(s.c, A)}) ? 0 : 1) {`); ind++
        emit('case 0:'); ind++; emit(`const ${s.v} = ${ex(s.e1, A)};`); emit('break;'); ind--
        emit('default:'); ind++; emit(`void (${ex(s.e2, A)});`); ind--
        ind--; emit('}')
        break
      case 'ret': if (f && f.noReturn) emit(`void (${ex(s.e, A)});`); else emit(`return ${ex(s.e, A)};`); break
      case 'if':
        emit(`if ($.t(${ex(s.c, A)})) {`); ind++; block(s.then, A, f); ind--
        if (s.els) { emit('} else {'); ind++; block(s.els, A, f); ind-- }
        emit('}')
        break
      case 'for':
        emit(`for (let ${s.v} = 0; ${s.v} < ${s.n}; ${s.v}++) {`); ind++; block(s.body, A, f); ind--; emit('}')
        break
      case 'forof':
        emit(`for (const ${s.v} of [${ex(s.e, A)}, 1]) {`); ind++; block(s.body, A, f); ind--; emit('}')
        break
      case 'while':
        emit(`let ${s.v} = 0;`)
        emit(`while (${s.v}++ < ${s.n} && $.t(${ex(s.c, A)})) {`); ind++; block(s.body, A, f); ind--; emit('}')
        break
      case 'switch':
        emit(`switch ($.t(${ex(s.c, A)}) ? 0 : 1) {`); ind++
        emit('case 0: {'); ind++; block(s.cases[0], A, f); emit('break;'); ind--; emit('}')
        emit('default: {'); ind++; block(s.cases[1], A, f); ind--; emit('}')
        ind--; emit('}')
        break
      case 'try':
        emit('try {'); ind++; block(s.body, A, f); ind--
        emit('} catch (e) {'); ind++; emit('$.caught(' + A + ', e);'); block(s.handler, A, f); ind--
        if (s.finalizer) { emit('} finally {'); ind++; block(s.finalizer, A, { ...f, noReturn: true }); ind-- }
        emit('}')
        break
      case 'block':
        emit(s.labelled ? `lbl${labelCounter++}: {` : '{'); ind++; block(s.body, A, f); ind--; emit('}')
        break
      case 'addassign': {
        const rhs = ex(s.e, A)
        overflow = false
        const aalts = altsOf(s.e)
        regAlts(s.id, 'plusOperator', aalts, s.e.label, true)
        // targets whose object or key is itself a call ($.n is the identity, pure: evaluating it twice is harmless)
        const TARGETS = { local: 'acc', member: 'box.x', 'call-member': '$.n(box).x', 'call-computed': "$.n(box)[$.n('x')]", 'computed-key-call': "box[$.n('x')]" }
        emit(`${TARGETS[s.target] || 'acc'} += ${rhs};`)
        break
      }
      case 'strstmt': emit(`${s.text};`); break
      case 'nested': func(s.f, true); break
      case 'closure':
        emit(`for (let ${s.v} = 0; ${s.v} < ${s.n}; ${s.v}++) {`); ind++
        func(s.f, true)
        ind--; emit('}')
        break
    }
  }

  function prelude (A, f) {
    emit(`$.enter(${A}, ${JSON.stringify(f.name)});`)
    emit("let acc = ''; const box = { x: '' };")
  }

  function func (f, nested) {
    const async = f.isAsync ? 'async ' : ''
    const star = f.isGen ? '*' : ''
    names.push(f.name)
    switch (f.kind) {
      case 'arrowExpr':
        emit(`const ${f.name} = (act) => ${ex(f.expr, 'act')};`)
        emit(`$.reg(${JSON.stringify(f.name)}, ${f.name}, 'fn');`)
        return
      case 'arrowBlock':
        emit(`const ${f.name} = (act) => {`); ind++; prelude('act', f); block(f.body, 'act', f); ind--; emit('};')
        emit(`$.reg(${JSON.stringify(f.name)}, ${f.name}, 'fn');`)
        return
      case 'arrow-default':
        emit(`const ${f.name} = (act, p = ${ex(f.def, 'act')}) => {`); ind++; prelude('act', f); block(f.body, 'act', f); ind--; emit('};')
        emit(`$.reg(${JSON.stringify(f.name)}, ${f.name}, 'fn');`)
        return
      case 'decl-default':
        emit(`function ${f.name}(act, p = ${ex(f.def, 'act')}) {`); ind++; prelude('act', f); block(f.body, 'act', f); ind--; emit('}')
        emit(`$.reg(${JSON.stringify(f.name)}, ${f.name}, 'fn');`)
        return
      case 'objlit': {
        emit(`const ${f.name} = {`); ind++
        for (const m of f.members) {
          switch (m.kind) {
            case 'getter': emit(`get ${m.name}() {`); ind++; emit('const act = $.a();'); prelude('act', m); block(m.body, 'act', m); ind--; emit('},'); break
            case 'setter': emit(`set ${m.name}(value) {`); ind++; emit('const act = $.a();'); prelude('act', m); block(m.body, 'act', { ...m, noReturn: true }); ind--; emit('},'); break
            case 'genmethod': emit(`*${m.name}(act) {`); ind++; prelude('act', m); block(m.body, 'act', m); ind--; emit('},'); break
            default: emit(`${m.name}(act) {`); ind++; prelude('act', m); block(m.body, 'act', m); ind--; emit('},')
          }
        }
        ind--; emit('};')
        emit(`$.regObj(${JSON.stringify(f.name)}, ${f.name}, ${JSON.stringify(f.members.map(m => ({ kind: m.kind, name: m.name })))});`)
        return
      }
      case 'class': {
        emit(f.derived ? `class ${f.name} extends $.K {` : `class ${f.name} {`); ind++
        for (const m of f.members) {
          switch (m.kind) {
            case 'field': emit(`${m.name} = ${ex(m.expr, '(this.A || (this.A = $.a()))')};`); break
            case 'staticField': emit(`static ${m.name} = ${ex(m.expr, `(${f.name}.SA || (${f.name}.SA = $.a()))`)};`); break
            case 'staticBlock': emit('static {'); ind++; emit('const act = $.a();'); prelude('act', m); block(m.body, 'act', { ...m, noReturn: true }); ind--; emit('}'); break
            case 'ctor': emit('constructor(act) {'); ind++; if (f.derived) emit(m.superExpr ? `super(${ex(m.superExpr, 'act')});` : 'super(0);'); prelude('act', m); block(m.body, 'act', { ...m, noReturn: true }); ind--; emit('}'); break
            case 'getter': emit(`get ${m.name}() {`); ind++; emit('const act = $.a();'); prelude('act', m); block(m.body, 'act', m); ind--; emit('}'); break
            case 'static': emit(`static ${m.name}(act) {`); ind++; prelude('act', m); block(m.body, 'act', m); ind--; emit('}'); break
            default: emit(`${m.name}(act) {`); ind++; prelude('act', m); block(m.body, 'act', m); ind--; emit('}')
          }
        }
        ind--; emit('}')
        emit(`$.regClass(${JSON.stringify(f.name)}, ${f.name}, ${JSON.stringify(f.members.map(m => ({ kind: m.kind, name: m.name })))});`)
        return
      }
      default:
        emit(`${async}function${star} ${f.name}(act) {`); ind++; prelude('act', f); block(f.body, 'act', f); ind--; emit('}')
        emit(`$.reg(${JSON.stringify(f.name)}, ${f.name}, ${JSON.stringify(f.isGen ? (f.isAsync ? 'asyncgen' : 'gen') : f.isAsync ? 'async' : 'fn')});`)
    }
  }

  lines.push(P.strict ? "'use strict';" : '// sloppy mode')
  lines.push('module.exports = function factory($) {')
  lines.push('  const aloneMethod = (...parts) => parts.join("");')
  for (const f of P.funcs) func(f, false)
  lines.push('};')
  return { text: lines.join('\n') + '\n', ops, sites, names }
}

module.exports = { genProgram, render }
