'use strict'
// C06, privacy clause (input-driven; no schedule in it — rides on the executor because the clause
// belongs to C06): a program that mentions an identifier with the reserved prefix where it could
// clash must be refused; if code is emitted instead, user code must neither see nor alter a value
// it did not write, and the emitted code must load.
const vm = require('vm')

// R is the reserved-prefix identifier; every template has an instrumented operation whose
// temporaries get the same names in the block under test
const PLACEMENTS = {
  'same-block-variable': (R) => `function f(act) {\n  let ${R} = 'U1';\n  const v = $.p(act, 1) + $.p(act, 2);\n  $.u('read', ${R});\n  return v;\n}`,
  'outer-variable-read-and-written-in-block': (R) => `let ${R} = 'U1';\nfunction f(act) {\n  const v = $.p(act, 1) + $.p(act, 2);\n  $.u('read', ${R});\n  ${R} = 'U2';\n  const w = $.p(act, 3) + $.p(act, 4);\n  $.u('read2', ${R});\n  return v + w;\n}\nconst rd = () => ${R};\nconst after = () => $.u('outer', rd());`,
  'parameter-used-in-body': (R) => `function f(act, ${R}) {\n  const v = $.p(act, 1) + $.p(act, 2);\n  $.u('read', ${R});\n  return v;\n}`,
  'toplevel-fn-param': (R) => `function f(act, ${R}) {\n  const v = $.p(act, 1) + $.p(act, 2);\n  $.u('args', arguments[1]);\n  return v;\n}`,
  'nested-fn-param': (R) => `function f(act) {\n  function inner(a, ${R}) { return arguments[1]; }\n  const v = $.p(act, 1) + $.p(act, 2);\n  $.u('inner', inner(1, 'U1'));\n  return v;\n}`,
  'nested-block-variable': (R) => `function f(act) {\n  {\n    let ${R} = 'U1';\n    const w = $.p(act, 3) + $.p(act, 4);\n    $.u('read', ${R});\n  }\n  const v = $.p(act, 1) + $.p(act, 2);\n  return v;\n}`,
  'else-unbraced': (R) => `let ${R} = 'U1';\nfunction f(act) {\n  const v = $.p(act, 1) + $.p(act, 2);\n  if ($.u('c', 0)) v.length; else ${R} = 'U2';\n  const w = $.p(act, 3) + $.p(act, 4);\n  return v + w;\n}\nconst rd = () => ${R};\nconst after = () => $.u('outer', rd());`,
  'if-test': (R) => `let ${R} = 'U1';\nfunction f(act) {\n  const v = $.p(act, 1) + $.p(act, 2);\n  if (${R}) { $.u('then', 1); }\n  return v;\n}`,
  'arrow-param': (R) => `const f = (act, ${R}) => {\n  const v = $.p(act, 1) + $.p(act, 2);\n  $.u('done', 1);\n  return v;\n};`,
  'arrow-expression-param': (R) => `const f = (act, ${R}) => $.p(act, 1) + $.p(act, 2);`,
  'delete-operand': (R) => `let ${R} = { x: 'U1' };\nfunction f(act) {\n  const v = $.p(act, 1) + $.p(act, 2);\n  delete ${R}.x;\n  const w = $.p(act, 3) + $.p(act, 4);\n  return v + w;\n}\nconst rd = () => ${R}.x;\nconst after = () => $.u('outer', rd());`,
  'concise-arrow-reads-outer': (R) => `let ${R} = 'U1';\nfunction f(act) {\n  const peek = () => ${R};\n  const v = $.p(act, 1) + $.p(act, 2);\n  $.u('peek', peek());\n  return v;\n}`,
  'concise-arrow-writes-outer': (R) => `let ${R} = 'U1';\nconst rd = () => ${R};\nfunction f(act) {\n  const poke = (x) => (${R} = x);\n  const v = $.p(act, 1) + $.u('poke', poke('U2')) + $.p(act, 2);\n  return v;\n}\nconst after = () => $.u('outer', rd());`,
  'else-block-after-unbraced-consequent': (R) => `let ${R} = 'U1';\nfunction f(act) {\n  const v = $.p(act, 1) + $.p(act, 2);\n  if ($.u('c', 0)) v.length; else { $.u('read', ${R}); }\n  return v;\n}`,
  'closure-in-else-block-after-unbraced-consequent': (R) => `let ${R} = 'U1';\nfunction f(act) {\n  const v = $.p(act, 1) + $.p(act, 2);\n  if ($.u('c', 0)) v.length; else if ($.u('d', 1)) { const g = () => ${R}; $.u('g', g()); }\n  return v;\n}`,
  'argument-inside-rewritten-optional-chain': (R) => `let ${R} = 'U1234';\nfunction f(act) {\n  const s = $.p(act, 1);\n  const v = s?.trim().concat(${R}.length > 2 ? 'x' : 'y');\n  $.u('v', v.length > 0);\n  return $.p(act, 2) + $.p(act, 3);\n}`,
  'base-of-rewritten-optional-chain': (R) => `let ${R} = 'U1';\nfunction f(act) {\n  const v = $.p(act, 1) + $.p(act, 2);\n  $.u('t', ${R}?.trim());\n  return v;\n}`,
  'property-name': (R) => `function f(act) {\n  const o = { ${R}: 'U1' };\n  const v = $.p(act, 1) + $.p(act, 2);\n  $.u('prop', o.${R});\n  return v;\n}`,
  'function-name-in-block': (R) => `function f(act) {\n  function ${R}() { return 'U1'; }\n  const v = $.p(act, 1) + $.p(act, 2);\n  $.u('call', typeof ${R} === 'function' ? ${R}() : ${R});\n  return v;\n}`,
  'class-name-in-block': (R) => `function f(act) {\n  class ${R} { static s() { return 'U1'; } }\n  const v = $.p(act, 1) + $.p(act, 2);\n  $.u('call', ${R}.s());\n  return v;\n}`,
  'catch-param': (R) => `function f(act) {\n  const v = $.p(act, 1) + $.p(act, 2);\n  try { throw new Error('U1'); } catch (${R}) { const w = $.p(act, 3) + $.p(act, 4); $.u('caught', ${R}.message); }\n  return v;\n}`,
  'destructuring-target': (R) => `function f(act) {\n  const { a: ${R} } = { a: 'U1' };\n  const v = $.p(act, 1) + $.p(act, 2);\n  $.u('read', ${R});\n  return v;\n}`,
  'closure-capture': (R) => `function f(act) {\n  let ${R} = 'U1';\n  const g = () => { const w = $.p(act, 3) + $.p(act, 4); $.u('inner', ${R}); return w; };\n  const v = $.p(act, 1) + $.p(act, 2);\n  return v + g();\n}`,
  'outer-fn-variable-read-in-closure-only': (R) => `function outer(act) {\n  let ${R} = 'U1';\n  const g = () => { const w = $.p(act, 3) + $.p(act, 4); $.u('inner', ${R}); return w; };\n  return g();\n}\nconst f = outer;`,
  'template-substitution': (R) => `let ${R} = 'U1';\nfunction f(act) {\n  const v = $.p(act, 1) + $.p(act, 2);\n  $.u('tpl', \`x\${${R}}y\`);\n  return v;\n}`,
  'typeof-operand': (R) => `let ${R} = 'U1';\nfunction f(act) {\n  const v = $.p(act, 1) + $.p(act, 2);\n  $.u('typeof', typeof ${R});\n  return v;\n}`,
  'update-expression': (R) => `let ${R} = 5;\nfunction f(act) {\n  const v = $.p(act, 1) + $.p(act, 2);\n  ${R}++;\n  const w = $.p(act, 3) + $.p(act, 4);\n  return v + w;\n}\nconst rd = () => ${R};\nconst after = () => $.u('outer', rd());`,
  'object-shorthand': (R) => `let ${R} = 'U1';\nfunction f(act) {\n  const v = $.p(act, 1) + $.p(act, 2);\n  const o = { ${R} };\n  $.u('short', o.${R});\n  return v;\n}`,
  'label': (R) => `function f(act) {\n  const v = $.p(act, 1) + $.p(act, 2);\n  ${R}: for (;;) { break ${R}; }\n  return v;\n}`,
  'for-of-binding': (R) => `function f(act) {\n  const v = $.p(act, 1) + $.p(act, 2);\n  for (const ${R} of ['U1']) { const w = $.p(act, 3) + $.p(act, 4); $.u('it', ${R}); }\n  return v;\n}`,
  'unbraced-for-body': (R) => `let ${R} = 'U1';\nfunction f(act) {\n  const v = $.p(act, 1) + $.p(act, 2);\n  for (let i = 0; i < 1; i++) ${R} = 'U2';\n  const w = $.p(act, 3) + $.p(act, 4);\n  return v + w;\n}\nconst rd = () => ${R};\nconst after = () => $.u('outer', rd());`,
  'while-unbraced-body': (R) => `let ${R} = 0;\nfunction f(act) {\n  const v = $.p(act, 1) + $.p(act, 2);\n  while (${R} < 1) ${R}++;\n  return v;\n}\nconst rd = () => ${R};\nconst after = () => $.u('outer', rd());`,
  'default-param-value': (R) => `let ${R} = 'U1';\nconst f = (act, q = ${R}) => {\n  const v = $.p(act, 1) + $.p(act, 2);\n  $.u('q', q);\n  return v;\n};`,
  'return-argument': (R) => `let ${R} = 'U1';\nfunction f(act) {\n  const v = $.p(act, 1) + $.p(act, 2);\n  $.u('v', v.length > 0);\n  return ${R};\n}`,
  'instance-field-initialiser': (R) => `let ${R} = 'U1';\nfunction f(act) {\n  class K { x = ${R}; }\n  const v = $.p(act, 1) + $.p(act, 2);\n  $.u('field', new K().x);\n  return v;\n}`,
  'private-field-initialiser': (R) => `let ${R} = 'U1';\nfunction f(act) {\n  class K { #x = ${R}; get() { return this.#x; } }\n  const v = $.p(act, 1) + $.p(act, 2);\n  $.u('field', new K().get());\n  return v;\n}`,
  'instance-field-arrow': (R) => `let ${R} = 'U1';\nfunction f(act) {\n  class K { x = () => ${R}; }\n  const v = $.p(act, 1) + $.p(act, 2);\n  $.u('field', new K().x());\n  return v;\n}`,
  'instance-field-arrow-writes': (R) => `let ${R} = 'U1';\nconst rd = () => ${R};\nfunction f(act) {\n  class K { #w = (x) => (${R} = x); poke(x) { return this.#w(x); } }\n  const v = $.p(act, 1) + $.u('poke', new K().poke('U2')) + $.p(act, 2);\n  return v;\n}\nconst after = () => $.u('outer', rd());`,
  'static-field-initialiser': (R) => `let ${R} = 'U1';\nfunction f(act) {\n  const v = $.p(act, 1) + $.p(act, 2);\n  class K { static x = ${R}; }\n  $.u('field', K.x);\n  return v;\n}`,
  'static-block': (R) => `let ${R} = 'U1';\nfunction f(act) {\n  const v = $.p(act, 1) + $.p(act, 2);\n  class K { static { $.u('sb', ${R}); } }\n  return v;\n}`,
  'computed-class-key': (R) => `let ${R} = 'U1';\nfunction f(act) {\n  const v = $.p(act, 1) + $.p(act, 2);\n  class K { [${R}]() { return 'm'; } }\n  $.u('key', Object.getOwnPropertyNames(K.prototype).join());\n  return v;\n}`,
  'class-method-body': (R) => `let ${R} = 'U1';\nfunction f(act) {\n  class K { m() { return ${R}; } get g() { return ${R}; } }\n  const v = $.p(act, 1) + $.p(act, 2);\n  $.u('m', new K().m() + new K().g);\n  return v;\n}`,
  'class-heritage': (R) => `let ${R} = class { h() { return 'U1'; } };\nfunction f(act) {\n  const v = $.p(act, 1) + $.p(act, 2);\n  class K extends ${R} {}\n  $.u('h', new K().h());\n  return v;\n}`,
  'object-method-and-getter': (R) => `let ${R} = 'U1';\nfunction f(act) {\n  const o = { m() { return ${R}; }, get g() { return ${R}; }, [${R}]: 1 };\n  const v = $.p(act, 1) + $.p(act, 2);\n  $.u('o', o.m() + o.g + Object.keys(o).join());\n  return v;\n}`,
  // the mention sits in a deeply nested block / function (anything depth-bounded in the traversal)
  ...Object.fromEntries([8, 63, 64, 65, 100].map(d => [`deep-block-${d}`, (R) => `let ${R} = 'U1';\nfunction f(act) {\n  const v = $.p(act, 1) + $.p(act, 2);\n  ${'{ '.repeat(d)}$.u('read', ${R});${' }'.repeat(d)}\n  return v;\n}`])),
  ...Object.fromEntries([8, 64, 70].map(d => [`deep-function-${d}`, (R) => `let ${R} = 'U1';\nfunction f(act) {\n  const v = $.p(act, 1) + $.p(act, 2);\n  ${'(() => { '.repeat(d)}$.u('read', ${R});${' })();'.repeat(d)}\n  return v;\n}`])),
  ...Object.fromEntries([64, 70].map(d => [`deep-block-writes-${d}`, (R) => `let ${R} = 'U1';\nconst rd = () => ${R};\nfunction f(act) {\n  const v = $.p(act, 1) + (${'{ '.repeat(0)}$.n(() => { ${'{ '.repeat(d)}${R} = 'U2';${' }'.repeat(d)} return 'w'; })()) + $.p(act, 2);\n  return v;\n}\nconst after = () => $.u('outer', rd());`])),
  // the clashing block is followed, inside the same statement, by another instrumented block that is not
  // reached through a statement node (a later method, a later callback argument, a finally block)
  'clash-in-first-class-method': (R) => `class K {\n  m1(act) { let ${R} = 'U1'; const v = $.p(act, 1) + $.p(act, 2); $.u('read', ${R}); return v; }\n  m2(act) { return $.p(act, 3) + $.p(act, 4); }\n}\nconst f = (act) => new K().m1(act) + new K().m2(act);`,
  'clash-in-first-object-method': (R) => `const o = {\n  m1(act) { let ${R} = 'U1'; const v = $.p(act, 1) + $.p(act, 2); $.u('read', ${R}); return v; },\n  get g() { return (act) => $.p(act, 3) + $.p(act, 4); },\n  m2(act) { return $.p(act, 5) + $.p(act, 6); }\n};\nconst f = (act) => o.m1(act) + o.m2(act) + o.g(act);`,
  'clash-in-first-callback-argument': (R) => `function f(act) {\n  return $.n(function () { let ${R} = 'U1'; const v = $.p(act, 1) + $.p(act, 2); $.u('read', ${R}); return v; }, function () { return $.p(act, 3) + $.p(act, 4); })();\n}`,
  'clash-in-try-then-finally': (R) => `function f(act) {\n  let r = '';\n  try { let ${R} = 'U1'; r = $.p(act, 1) + $.p(act, 2); $.u('read', ${R}); } catch (e) { r = $.p(act, 5) + $.p(act, 6); } finally { r = r + ($.p(act, 3) + $.p(act, 4)); }\n  return r;\n}`,
  'toplevel-class-method-param': (R) => `class K {\n  m(act, ${R}) { const v = $.p(act, 1) + $.p(act, 2); $.u('args', arguments[1]); return v; }\n}\nconst f = (act) => new K().m(act, 'U1');`,
  'template-with-literal-expression': (R) => `let ${R} = 'U1';\nfunction f(act) {\n  const v = $.p(act, 1) + $.p(act, 2);\n  $.u('tpl', \`\${1}\${${R}}\`);\n  return v;\n}`,
  // a block that lives inside a parameter list: the body of a closure used as a default value
  'closure-body-in-default-param': (R) => `let ${R} = 'U1';\nfunction f(act) {\n  const v = $.p(act, 1) + $.p(act, 2);\n  function inner(cb = () => { return ${R}; }) { return cb(); }\n  $.u('inner', inner());\n  return v;\n}`,
  'closure-body-in-arrow-default-param': (R) => `let ${R} = 'U1';\nconst rd = () => ${R};\nfunction f(act) {\n  const inner = (cb = function () { ${R} = 'U2'; return 'w'; }) => cb();\n  const v = $.p(act, 1) + $.u('poke', inner()) + $.p(act, 2);\n  return v;\n}\nconst after = () => $.u('outer', rd());`,
  'argument-of-rewritten-optional-call': (R) => `let ${R} = 'U1';\nfunction f(act) {\n  const s = $.p(act, 1);\n  const v = s?.concat(${R});\n  $.u('v', v);\n  return $.p(act, 2) + $.p(act, 3);\n}`,
  // the mention sits only in a default value of a nested non-arrow function / method / constructor
  'default-value-of-nested-function': (R) => `let ${R} = 'U1';\nfunction f(act) {\n  const v = $.p(act, 1) + $.p(act, 2);\n  function inner(q = ${R}) { return q; }\n  $.u('q', inner());\n  return v;\n}`,
  'default-value-of-nested-method': (R) => `let ${R} = 'U1';\nfunction f(act) {\n  const v = $.p(act, 1) + $.p(act, 2);\n  const o = { m(q = ${R}) { return q; } };\n  class K { constructor(q = ${R}) { this.q = q; } }\n  $.u('q', o.m() + new K().q);\n  return v;\n}`,
  'else-if-unbraced': (R) => `let ${R} = 'U1';\nfunction f(act) {\n  const v = $.p(act, 1) + $.p(act, 2);\n  if ($.u('c', 0)) { v.length; } else if ($.u('d', 1)) ${R} = 'U3';\n  const w = $.p(act, 3) + $.p(act, 4);\n  return v + w;\n}\nconst rd = () => ${R};\nconst after = () => $.u('outer', rd());`,
  // round r: the reserved name is mentioned only AFTER an unconditional jump of the block that injects the
  // temporaries, in a position that is hoisted (or shares the scope) all the same
  'var-after-return': (R) => `function f(act) {\n  const v = $.p(act, 1) + $.p(act, 2);\n  return v;\n  var ${R} = 'never';\n}`,
  'function-declaration-after-return': (R) => `function f(act) {\n  const v = $.p(act, 1) + $.p(act, 2);\n  return v;\n  function ${R}() { return 'U1'; }\n}`,
  'helper-parameter-after-return': (R) => `function f(act) {\n  const v = $.p(act, 1) + $.p(act, 2);\n  return v + h('U1', act);\n  function h(${R}, a) { const w = $.p(a, 3) + $.p(a, 4); $.u('param', ${R}); return w; }\n}`,
  'var-after-break-in-case-block': (R) => `function f(act) {\n  switch ($.u('k', 1)) {\n    case 1: { const v = $.p(act, 1) + $.p(act, 2); $.u('t', v.length > 0); break; var ${R}; }\n  }\n  return 'x';\n}`,
  'var-after-continue-in-loop-body': (R) => `function f(act) {\n  for (let i = 0; i < 2; i++) { const v = $.p(act, 1) + $.p(act, 2); $.u('t', v.length > 0); continue; var ${R}; }\n  return 'x';\n}`,
  'function-declaration-after-throw': (R) => `function f(act) {\n  try {\n    const v = $.p(act, 1) + $.p(act, 2);\n    throw new Error(v);\n    function ${R}() { return 'U1'; }\n  } catch (e) { return 'caught'; }\n}`,
  // round s: one operation that needs 300 temporaries, and the reserved name carries an index past 255
  'wide-operation-high-index-variable': (R) => { const H = R.replace(/\d+$/, '280'); const args = Array.from({ length: 299 }, (_, k) => `$.p(act, ${k + 2})`).join(', '); return `function f(act) {\n  let ${H} = 'U1';\n  const v = $.p(act, 1).concat(${args});\n  $.u('read', ${H});\n  return v;\n}` },
  'wide-operation-high-index-free-variable': (R) => { const H = R.replace(/\d+$/, '257'); const args = Array.from({ length: 299 }, (_, k) => `$.p(act, ${k + 2})`).join(', '); return `let ${H} = 'U1';\nfunction f(act) {\n  const v = $.p(act, 1).concat(${args});\n  $.u('read', ${H});\n  ${H} = 'U2';\n  return v;\n}\nconst rd = () => ${H};\nconst after = () => $.u('outer', rd());`}
}

function planH5 (rng, prefix0, seq) {
  let prefix = prefix0
  const names = Object.keys(PLACEMENTS)
  // draws kept (the streams of everything below stay as they were); the walk overrides them
  let placement = rng.pick(names)
  let idx = rng.pick([0, 0, 1, 1, 2, 7])
  if (seq !== undefined) { placement = names[seq % names.length]; idx = [0, 1, 0, 1, 2, 7][Math.floor(seq / names.length) % 6] }
  // configured prefixes with characters beyond [A-Za-z0-9_$] (valid identifier letters), and user
  // identifiers that equal the reserved name only after such characters are replaced
  const variant = rng.below(6)
  if (variant === 4) prefix = 'caf\u00e9'
  if (variant === 5) prefix = '\u00f1and\u00fa'
  let R = `__datadog_${prefix}_${idx}`
  let lookalikeOnly = false
  if (variant >= 4 && rng.chance(1, 2)) { R = `__datadog_${prefix.replace(/[^A-Za-z0-9_$]/g, '_')}_${idx}`; lookalikeOnly = true }
  // the reserved prefix of the *other* rewriter instance of the process (only meaningful with preJob)
  let foreign = false
  if (variant === 3) { R = `__datadog_other_${idx}`; lookalikeOnly = true; foreign = true }
  const strict = rng.chance(1, 2)
  // the same identifier name spelled with a unicode escape (the parser turns it into the plain name)
  let spelled = R
  const sp = rng.below(5)
  if (sp === 3) spelled = '\\u005f' + R.slice(1)
  if (sp === 4) spelled = R.slice(0, 3) + '\\u0061' + R.slice(4) // the `a` of `__datadog`
  const escaped = spelled !== R
  // property names / labels / shorthand keep the plain spelling (an escape there changes nothing relevant)
  const body = PLACEMENTS[placement](escaped && !['object-shorthand', 'property-name', 'label'].includes(placement) ? spelled : R)
  const text = `${strict ? "'use strict';\n" : ''}${body}\nmodule.exports = { f, after: typeof after === 'function' ? after : null };\n`
  // an earlier rewrite of the same process used another prefix (history: the refusal must not
  // depend on which configuration was used first)
  const preJob = foreign || rng.chance(1, 2)
  return { mode: 'h5', placement: foreign ? placement + '(prefix-of-the-other-rewriter)' : lookalikeOnly ? placement + '(normalised-lookalike)' : placement, template: placement, R, strict, text, preJob, prefix }
}

function runOnce (code, file) {
  const obs = []
  let serial = 0
  const hooks = []
  const $ = {
    p: (act, site) => `<a${act}.s${site}.n${++serial}>`,
    u: (tag, v) => { obs.push([tag, typeof v === 'object' ? JSON.stringify(v) : String(v)]); return v }
  }
  const g = globalThis
  const had = Object.prototype.hasOwnProperty.call(g, '_ddiast')
  const prev = g._ddiast
  const before = new Set(Object.getOwnPropertyNames(g))
  g._ddiast = new Proxy({}, { get: (t, name) => (typeof name === 'string' ? (...args) => { hooks.push([name, args.slice(1).filter(a => typeof a === 'string')]); return args[0] } : undefined), has: () => true })
  g.$ = $
  let error = null; let ret
  try {
    const mod = { exports: {} }
    const fn = vm.compileFunction(code, ['exports', 'require', 'module', '__filename', '__dirname'], { filename: file })
    fn.call(mod.exports, mod.exports, () => ({}), mod, file, '/sim/c06')
    ret = mod.exports.f(1, 'ARG')
    if (mod.exports.after) mod.exports.after()
  } catch (e) { error = e }
  const leaked = Object.getOwnPropertyNames(g).filter(n => !before.has(n) && n.startsWith('__datadog'))
  for (const n of leaked) delete g[n]
  delete g.$
  if (had) g._ddiast = prev; else delete g._ddiast
  return { obs, hooks, error, ret: typeof ret === 'string' ? ret.replace(/\.n\d+>/g, '>') : String(ret), leaked }
}

function executeH5 (plan, resp, file) {
  const out = { violations: [], stats: {}, cell: `h5:${plan.placement}` }
  const st = (k) => { out.stats[k] = (out.stats[k] || 0) + 1 }
  st('h5-cases')
  if (!resp.ok) {
    if (/Variable name duplicated/.test(String(resp.err))) { st('h5-refused'); out.cell += ':refused'; return out }
    out.note = 'h5 rewrite error: ' + String(resp.err || resp.panic).slice(0, 80)
    return out
  }
  if (resp.ok.metrics.status !== 'modified') { st('h5-not-modified'); return out }
  st('h5-emitted')
  out.cell += ':emitted'
  const o = runOnce(plan.text, file)
  if (o.error) { out.note = 'h5 original fails: ' + String(o.error.message).slice(0, 80); return out }
  const r = runOnce(resp.ok.content, file)
  const key = `H5:${plan.placement}`
  const norm = (x) => JSON.stringify(x).replace(/\.n\d+>/g, '>')
  if (r.error) {
    out.violations.push({ invariant: 'H5', key, detail: `reserved-prefix identifier ${plan.R} as ${plan.placement}: not refused, and the emitted code fails (${r.error.name}: ${r.error.message}) while the original runs` })
  } else if (norm(r.obs) !== norm(o.obs) || r.ret !== o.ret) {
    out.violations.push({ invariant: 'H5', key, detail: `reserved-prefix identifier ${plan.R} as ${plan.placement}: not refused, and user code observes different values: original ${norm(o.obs)} returns ${o.ret}; rewritten ${norm(r.obs)} returns ${r.ret}` })
  } else if (r.leaked.length) {
    out.violations.push({ invariant: 'H5', key, detail: `injected names leaked to the global object: ${r.leaked}` })
  } else st('h5-emitted-and-harmless')
  return out
}

module.exports = { planH5, executeH5, PLACEMENTS }
