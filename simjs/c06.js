'use strict'
// C06 — injected temporaries are hygienic: declared, private, never clobbered while live.
// Re-entrant call histories, generator / async interleavings and exceptions thrown mid-expression
// over generated scope shapes; operand-provenance monitor at every hook call.
const vm = require('vm')
const { Rng, mix, fnv32 } = require('./kernel')
const { genProgram, render } = require('./gen06')
const { World, SimFault, KNOWN_CTX } = require('./world')
const { planH5, executeH5 } = require('./h5')

const FILE = '/sim/c06/module.js'

function cfgOf (prefix, kind) {
  const operators = [{ src: 'plusOperator', operator: true }, { src: 'tplOperator', operator: true }]
  const methods = [{ src: 'trim' }, { src: 'trimStart' }, { src: 'trimEnd' }, { src: 'concat' }, { src: 'aloneMethod', allowedWithoutCallee: true }]
  // valid, rarely used configurations: string methods without any operator, operators without methods
  const csiMethods = kind === 'methods-only' ? methods : kind === 'operators-only' ? operators : kind === 'plus-off' ? [operators[1]].concat(methods) : operators.concat(methods)
  return {
    chainSourceMap: false,
    comments: false,
    localVarPrefix: prefix,
    telemetryVerbosity: 'OFF',
    literals: false,
    csiMethods
  }
}

// H6 (static pass, appended after the scheduled runs so that no earlier run changes): the emitted text of
// rewritten programs from the generators of C13 / C16 (syntax zoo, corpus of the repository's own test inputs,
// module syntax, repeated constructs, wide expressions, generated programs) is parsed by the harness and every
// temporary must be declared by an injected `let` inside its own function, before its use (simrw/src/scope.rs)
const BASE_RUNS = { quick: 3000, thorough: 120000 }
const H6_RUNS = { quick: 500, thorough: 20000 }
const H6_KINDS = ['zoo', 'zoo', 'zoo', 'program', 'program', 'corpus', 'corpus', 'module', 'repeat', 'wide']
const H6_METHODS = ['substring', 'trim', 'trimStart', 'trimEnd', 'concat', 'slice', 'replace'].map(src => ({ src }))

function planH6 (rng) {
  const gens = []
  for (let i = 0; i < 8; i++) gens.push({ kind: rng.pick(H6_KINDS), seed: rng.next() % 1000000007 })
  return { mode: 'h6', gens, prefix: 'sim', cfgKind: rng.pick(['h6-full', 'h6-full', 'h6-full', 'h6-methods-only', 'h6-operators-only', 'h6-without-callee']) }
}

function cfgH6 (prefix, kind) {
  const c = cfgOf(prefix, 'full')
  const operators = [{ src: 'plusOperator', operator: true }, { src: 'tplOperator', operator: true }]
  c.csiMethods = kind === 'h6-methods-only' ? H6_METHODS : kind === 'h6-operators-only' ? operators : operators.concat(H6_METHODS)
  if (kind === 'h6-without-callee') c.csiMethods = c.csiMethods.concat([{ src: 'trim', dst: 'trimAlone', allowedWithoutCallee: true }, { src: 'fn0', allowedWithoutCallee: true }])
  return c
}

function jobsH6 (plan) {
  return plan.gens.map((g, i) => ({ cfg: cfgH6(plan.prefix, plan.cfgKind), prng_seed: 1, file: `/sim/c06/h6-${i}.js`, gen: g, scopecheck: true }))
}

function scopeViolations (resp, where) {
  const out = []
  const sc = resp && resp.scope
  if (!sc) return out
  if (sc.parse_error) { out.push({ invariant: 'H6', key: 'H6:emitted-text-does-not-parse', detail: `${where}: the harness parser rejects the emitted text (${sc.parse_error})` }); return out }
  for (const f of sc.findings || []) out.push({ invariant: 'H6', key: f.key, detail: `${where}: ${f.detail}` })
  return out
}

function plan (seed, run, tier) {
  const rng = new Rng(mix(mix(seed >>> 0, 0xC06), run))
  if (run >= (BASE_RUNS[tier] || BASE_RUNS.quick)) return planH6(rng)
  // two runs in five exercise the privacy clause; placement and index are walked round-robin (the h5 runs of
  // a batch cover every placement with the indexes 0, 1, 0, 1, 2, 7 in turn), the rest is drawn
  if (run % 5 >= 3) return planH5(rng, 'sim', Math.floor(run / 5) * 2 + (run % 5 - 3))
  // contexts of the known finding F5 (non-arrow parameter default, instance class field) are
  // generated in a quarter of the runs only, so three quarters of every batch cannot be masked
  const allowKnownCtx = run % 4 === 1
  const prog = genProgram(rng, { maxFuncs: tier === 'thorough' ? 7 : 5, allowKnownCtx })
  return {
    prog,
    schedSeed: rng.next(),
    budget: rng.pick([120, 200, 300]),
    depth: rng.range(2, 5),
    lateHooks: rng.chance(1, 5),
    prefix: 'sim',
    tag: allowKnownCtx ? 'known-ctx-allowed' : '',
    cfgKind: rng.pick(['full', 'full', 'full', 'full', 'full', 'methods-only', 'methods-only', 'operators-only', 'plus-off'])
  }
}

function jobs (plan) {
  if (plan.mode === 'h6') return jobsH6(plan)
  if (plan.mode === 'h5') {
    const js = [{ cfg: cfgOf(plan.prefix || 'sim'), prng_seed: 1, file: FILE, code: plan.text }]
    if (plan.preJob) js.unshift({ cfg: cfgOf('other'), prng_seed: 1, file: '/sim/c06/pre.js', code: 'function pre(a, b) { const x = a() + b(); return `${a()}${b()}` + x.trim(); }\n' })
    return js
  }
  const r = render(plan.prog)
  return [{ cfg: cfgOf(plan.prefix, plan.cfgKind), prng_seed: 1, file: FILE, code: r.text, scopecheck: true }]
}

const tick = () => new Promise((resolve) => setImmediate(resolve))

async function runProgram (code, registry, plan, monitored) {
  const world = new World(plan.schedSeed, registry, { budget: plan.budget, depth: plan.depth })
  const g = globalThis
  const hadHooks = Object.prototype.hasOwnProperty.call(g, '_ddiast')
  const before = new Set(Object.getOwnPropertyNames(g))
  let loadError = null
  world.monitor = monitored
  if (monitored) {
    // arm the H4 sentinel: `let __datadog_x_0, __datadog_x_1;` -> `let __datadog_x_0 = $simU, ...;`
    g.$simU = world.unassigned
    let armed = 0
    code = code.replace(/\blet ((?:__datadog_[^\s,;=()]+(?:, )?)+);/g, (m, names) => { armed++; return 'let ' + names.split(', ').map(n => `${n} = globalThis.$simU`).join(', ') + ';' })
    world.stat('injected-let-declarations-armed', armed)
  }
  if (monitored && !plan.lateHooks) g._ddiast = world.hooks
  try {
    const mod = { exports: {} }
    const fn = vm.compileFunction(code, ['exports', 'require', 'module', '__filename', '__dirname'], { filename: FILE })
    fn.call(mod.exports, mod.exports, () => ({}), mod, FILE, '/sim/c06')
    if (monitored && plan.lateHooks) {
      // the file ran its prologue before the tracer installed real hooks
      if (typeof g._ddiast === 'undefined') world.exceptions.push({ msg: 'prologue did not install a pass-through _ddiast', where: 'load' })
      g._ddiast = world.hooks
      world.stat('probe:hooks-installed-after-load')
    }
    const factory = mod.exports
    try { factory(world.$) } catch (e) { if (!(e instanceof SimFault)) world.foreign(e, 'factory') }
    let i = 0
    while (world.events < world.limits.budget && i < 400) {
      if (!world.topStep(i++)) break
      await tick()
    }
    await tick()
  } catch (e) {
    loadError = e
  }
  // H3: no injected name may leak to the global object (sloppy mode, undeclared temporary)
  const leaked = Object.getOwnPropertyNames(g).filter(n => !before.has(n) && n.startsWith('__datadog'))
  for (const n of leaked) delete g[n]
  if (!hadHooks) delete g._ddiast
  delete g.$simU
  return { world, loadError, leaked }
}

async function execute (plan, table) {
  const wantLog = !!process.env.VERIF_LOG
  const rep = { events: 0, logDigest: 0, violations: [], notes: [], stats: {}, shapes: [], cells: [] }
  const st = (k, n) => { rep.stats[k] = (rep.stats[k] || 0) + (n === undefined ? 1 : n) }
  if (plan.mode === 'h6') {
    const js = jobsH6(plan)
    const cells = []
    js.forEach((job, i) => {
      const resp = table.get(job)
      const g = plan.gens[i]
      const cls = resp.ok ? resp.ok.metrics.status : resp.err ? (/Variable name duplicated/.test(String(resp.err)) ? 'refused' : 'syntax-error') : 'panic'
      st('h6:' + g.kind + ':' + cls)
      cells.push('h6:' + g.kind + ':' + cls)
      if (resp.ok && resp.ok.metrics.status === 'modified') {
        st('h6:emitted-texts-checked')
        st('h6:temporary-occurrences-resolved', (resp.scope && resp.scope.uses) || 0)
        st('h6:injected-let-declarations-seen', (resp.scope && resp.scope.lets) || 0)
        for (const v of scopeViolations(resp, `gen ${g.kind}#${g.seed}`)) rep.violations.push(v)
      }
      if (wantLog) (rep.log = rep.log || []).push(`h6 gen=${g.kind}#${g.seed} -> ${cls} scope=${JSON.stringify(resp.scope || null)}`, '---- source ----', String(resp.source || ''), '---- rewriter answered ----', resp.ok ? String(resp.ok.content || '').split('\n//# sourceMappingURL')[0] : String(resp.err || resp.panic))
    })
    const seen = new Set()
    rep.violations = rep.violations.filter(v => !seen.has(v.key) && seen.add(v.key))
    rep.cells = [...new Set(cells)]
    rep.events = js.length
    rep.logDigest = fnv32(cells.join(',') + JSON.stringify(rep.violations.map(v => v.key)))
    return rep
  }
  if (plan.mode === 'h5') {
    const resp = table.get({ cfg: cfgOf(plan.prefix || 'sim'), prng_seed: 1, file: FILE, code: plan.text })
    const o = executeH5(plan, resp, FILE)
    rep.violations = o.violations
    for (const k of Object.keys(o.stats)) st(k, o.stats[k])
    if (o.note) rep.notes.push(o.note)
    rep.cells.push(o.cell)
    rep.events = 2
    rep.logDigest = fnv32(o.cell + JSON.stringify(o.violations.map(v => v.key)))
    if (wantLog) rep.log = [`h5 placement=${plan.placement} R=${plan.R} strict=${plan.strict} -> ${o.cell}`, '---- original ----', plan.text, '---- rewriter answered ----', resp.ok ? resp.ok.content.split('\n//# sourceMappingURL')[0] : String(resp.err)]
    return rep
  }
  const r = render(plan.prog)
  const job = { cfg: cfgOf(plan.prefix, plan.cfgKind), prng_seed: 1, file: FILE, code: r.text }
  const resp = table.get(job)
  const log = []
  if (!resp.ok) {
    // a refusal is the rewriter's decision, not a defect of the generated workload (the scheduled programs
    // mention no reserved name; refusing them is not what C06 forbids): counted, not a harness error
    if (/Variable name duplicated/.test(String(resp.err))) { rep.notes.push('refused although no reserved-prefix identifier is mentioned'); st('rewrite-refused-without-reserved-name'); rep.logDigest = fnv32('refused'); return rep }
    rep.notes.push('GEN: rewrite failed: ' + String(resp.err || resp.panic).slice(0, 100))
    rep.logDigest = fnv32('rewrite failed')
    return rep
  }
  if (resp.ok.metrics.status !== 'modified') {
    rep.notes.push('not modified')
    return rep
  }
  // the original program under the same seeds: anything it throws by itself is the generator's
  // business, not the rewriter's
  const orig = await runProgram(r.text, r, plan, false)
  const origMsgs = new Set(orig.world.exceptions.map(e => e.msg))
  if (orig.loadError) { rep.notes.push('GEN: generated program does not load: ' + String(orig.loadError.message).slice(0, 100)); return rep }
  const rw = await runProgram(resp.ok.content, r, plan, true)
  const w = rw.world
  // an exception cannot be attributed to a site: in programs that contain an operation in a
  // known-finding context (shared temporaries of parameter defaults / instance fields) it is keyed apart
  const hasKnownCtx = Object.values(r.ops).some(o => KNOWN_CTX.has(o.label))
  if (rw.loadError) {
    rep.violations.push({ invariant: 'H3', key: 'H3:rewritten-module-does-not-load', detail: `the rewritten module fails to load (${rw.loadError.name}: ${rw.loadError.message}) while the original loads` })
  }
  for (const v of w.violations) rep.violations.push(v)
  // H6: the same clause decided statically on the emitted text (paths no schedule executed included)
  for (const v of scopeViolations(resp, 'scheduled module')) rep.violations.push(v)
  st('h6:temporary-occurrences-resolved', (resp.scope && resp.scope.uses) || 0)
  for (const e of w.exceptions) {
    if (origMsgs.has(e.msg)) continue
    const undeclared = /__datadog_\w+ is not defined|Cannot access '__datadog/.test(e.msg)
    rep.violations.push({ invariant: 'H3', key: undeclared ? 'H3:undeclared-temporary' : 'H3:exception-only-in-rewritten:' + e.msg.split(':')[0] + (hasKnownCtx ? ':with-known-ctx' : ''), detail: `${e.msg} (${e.where}) escapes the rewritten program but not the original` })
  }
  if (rw.leaked.length) rep.violations.push({ invariant: 'H3', key: 'H3:global-leak', detail: `injected names leaked to the global object: ${rw.leaked.join(', ')}` })
  // de-duplicate by key
  const seen = new Set()
  rep.violations = rep.violations.filter(v => !seen.has(v.key) && seen.add(v.key))
  rep.events = w.events + orig.world.events
  for (const k of Object.keys(w.stats)) st(k, w.stats[k])
  st('runs-executed')
  if (plan.tag) st('runs-with-known-ctx-allowed')
  // interleaving measure: abstracted event sequence (activation ids ranked by first appearance)
  const rank = new Map()
  const abs = w.trace.map(t => { const [k, a] = t.split(':'); if (a === undefined) return k; if (!rank.has(a)) rank.set(a, rank.size); return k + rank.get(a) })
  const h = fnv32(abs.join(','))
  const nontrivial = (w.stats['fault:reentrant-call'] || 0) + (w.stats['fault:generator-resumed'] || 0) + (w.stats['fault:await-settled'] || 0) + (w.stats['fault:throw-in-operand'] || 0) + (w.stats['fault:reentrant-construct'] || 0) > 0
  if (nontrivial) rep.shapes.push(h)
  for (const id of Object.keys(r.ops)) rep.cells.push(r.ops[id].label + ':' + r.ops[id].hook)
  rep.cells = [...new Set(rep.cells)]
  log.push(`ops=${Object.keys(r.ops).length} hooks=${w.stats['hook-calls'] || 0} verified=${w.stats['hook-calls-verified'] || 0} events=${w.events} trace=${h.toString(16)} exceptions=${w.exceptions.length} violations=${rep.violations.map(v => v.key).join(',')}`)
  if (wantLog) { log.push(...abs.slice(0, 400)); rep.log = log.concat(['---- original ----', r.text, '---- rewritten ----', resp.ok.content.split('\n//# sourceMappingURL')[0]]) }
  rep.logDigest = fnv32(log[0])
  return rep
}

// ---- shrinking on the generator's own tree ----------------------------------------------------
function clone (x) { return JSON.parse(JSON.stringify(x)) }

function shrink (plan) {
  if (plan.mode === 'h5') return []
  if (plan.mode === 'h6') return plan.gens.length > 1 ? plan.gens.map((g) => { const q = clone(plan); q.gens = [g]; return q }) : []
  const out = []
  const P = plan.prog
  // drop whole functions
  if (P.funcs.length > 1) for (let i = P.funcs.length - 1; i >= 0; i--) { const q = clone(plan); q.prog.funcs.splice(i, 1); out.push(q) }
  // drop statements / class members anywhere (paths into the tree)
  const paths = []
  const walkBlock = (stmts, path) => {
    stmts.forEach((s, i) => {
      paths.push({ path, i })
      for (const k of ['then', 'els', 'body', 'handler', 'finalizer']) if (Array.isArray(s[k])) walkBlock(s[k], path.concat([i, k]))
      if (s.cases) s.cases.forEach((c, ci) => walkBlock(c, path.concat([i, 'cases', ci])))
      if (s.f) walkFunc(s.f, path.concat([i, 'f']))
    })
  }
  const walkFunc = (f, path) => {
    if (Array.isArray(f.body)) walkBlock(f.body, path.concat(['body']))
    if (f.members) f.members.forEach((m, mi) => { paths.push({ path: path.concat(['members']), i: mi, member: true }); if (Array.isArray(m.body)) walkBlock(m.body, path.concat(['members', mi, 'body'])) })
  }
  P.funcs.forEach((f, fi) => walkFunc(f, ['prog', 'funcs', fi]))
  for (const p of paths.reverse()) {
    const q = clone(plan)
    let node = q
    for (const k of p.path) node = node[k]
    if (Array.isArray(node) && node.length > (p.member ? 1 : 0)) { node.splice(p.i, 1); out.push(q) }
  }
  if (plan.budget > 60) { const q = clone(plan); q.budget = Math.floor(plan.budget / 2); out.push(q) }
  if (plan.depth > 1) { const q = clone(plan); q.depth = plan.depth - 1; out.push(q) }
  if (plan.lateHooks) { const q = clone(plan); q.lateHooks = false; out.push(q) }
  return out.slice(0, 250)
}

function summarise (plan) {
  if (plan.mode === 'h6') return { mode: 'h6 (static scope oracle over emitted text; sources are a pure function of generator kind and seed: `VERIF_LOG=1 ./check C06 --replay <file>` prints them)', gens: plan.gens, cfgKind: plan.cfgKind }
  if (plan.mode === 'h5') return { mode: 'h5 (privacy clause, input-driven)', placement: plan.placement, identifier: plan.R, strict: plan.strict, program: plan.text.split('\n') }
  const r = render(plan.prog)
  return { strict: plan.prog.strict, functions: r.names, operations: Object.values(r.ops).map(o => `${o.hook}@${o.label}[${o.leaves.join(',')}]`).slice(0, 30), schedSeed: plan.schedSeed, budget: plan.budget, depth: plan.depth, lateHooks: plan.lateHooks, program: r.text.split('\n').slice(0, 60) }
}

module.exports = {
  id: 'C06',
  level: 'exploration',
  chunk: 25,
  runs: (tier) => (BASE_RUNS[tier] || BASE_RUNS.quick) + (H6_RUNS[tier] || H6_RUNS.quick),
  plan,
  jobs,
  execute,
  shrink,
  summarise,
  rule: 'a case is one generated module (2-7 functions: declarations, arrows with block/expression bodies, generators, async functions, async generators, classes with constructors/methods/getters/static methods/fields/static blocks, parameter defaults, nested functions, closures created in loops; statements: blocks, labelled blocks, if/else, for, for-of, while, switch, try/catch/finally; operations: +, +=, templates, trim*/concat calls, optional chains, nested to depth 3) rewritten by the real rewriter and executed under one seeded schedule (<=300 events, recursion depth <=5): at every operand the scheduler may re-enter any registered function, construct a class, resume a suspended generator, settle a pending await or throw; distinct = hash of the abstract event sequence (event kind x activation rank); non-trivial = at least one re-entrant call / resumption / settlement / injected throw happened',
  components: {
    real: ['Rust rewriter (block/operation visitors, ident provider, all transforms, prologue) via simrw batch', 'V8 executing the rewritten module (vm.compileFunction)', 'the emitted prologue (pass-through _ddiast) when hooks are installed late'],
    simulated: ["the tracer's hook object _ddiast (the monitor)", 'run-time scheduling of the generated program through the world object $'],
    stub: ['wasm-bindgen glue']
  },
  assumptions: [
    'generated programs never pass values between activations, so an operand token of another activation in a hook call can only come from a shared temporary',
    'trim*/concat are identity/concatenation on tokens, so operand provenance survives nested operations',
    'exceptions that the un-rewritten program raises under the same schedule are attributed to the generator, not to the rewriter',
    'the reserved-prefix refusal clause (input-driven, no schedule in it) is not covered by this check'
  ],
  expectedProbes: ['probe:re-entry-while-operand-evaluation-in-progress', 'probe:generator-resumed-while-operand-evaluation-in-progress', 'probe:hook-with-3+-operand-tokens', 'probe:hooks-installed-after-load']
}
