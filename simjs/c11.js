'use strict'
// C11 — stack traces and locations of rewritten files report original file and line.
// Histories of rewrite / load / throw / handler-install / lookup / fs-mutation events over a set
// of files and versions, with fs faults; real main.js + js/source-map + js/stack-trace + lru-cache
// + V8 call sites; real Rust rewriter via batch.
const path = require('path')
const vm = require('vm')
const { Rng, mix, fnv32 } = require('./kernel')
const { genVersion } = require('./gen11')
const { loadPackage } = require('./loader')
const { makeAdapter } = require('./adapter')
const { SimFs } = require('./simfs')
const smap = require('./smap')

// two pairs share a base name in different directories
const FILES = ['/sim/app/a.js', '/sim/app/lib/b.js', '/sim/other/a.js', '/sim/c.js', '/sim/app/lib/deep/b.js', '/sim/other/e.js', '/sim/app/a\u00f1adir.js', '/sim/app/gen\\util.js', '/sim/app/(shop)/cart.js', '/sim/Program Files (x86)/svc/index.js', '/sim/app/[id]/page:1.js', '/rootfile.js', '/sim/app/lib/x.js', '/sim/app/li/bx.js', 'file:///sim/esm/mod.mjs', 'file://host/share/x.js', 'file:///sim/esm/a%2Fb.mjs', '/sim/app/models/User.js', '/sim/app/models/user.js', '/sim/app/a$$b/y.js', "/sim/app/a$&b/x$'.js"]

function cfgOf (chain, comments) {
  return {
    chainSourceMap: chain,
    comments,
    localVarPrefix: 'sim',
    telemetryVerbosity: 'OFF',
    literals: false,
    csiMethods: [{ src: 'plusOperator', operator: true }, { src: 'tplOperator', operator: true }, { src: 'trim' }, { src: 'concat' }]
  }
}

function plan (seed, run, tier) {
  const rng = new Rng(mix(mix(seed >>> 0, 0xC11), run))
  const nFiles = rng.range(1, 4)
  const chain = rng.chance(1, 2)
  const cfgs = [cfgOf(chain, rng.chance(1, 3))]
  if (rng.chance(1, 3)) cfgs.push(cfgOf(chain, !cfgs[0].comments))
  // sometimes the second instance has the other chaining setting, and is only constructed when first used
  if (cfgs.length === 2 && rng.chance(1, 3)) cfgs[1].chainSourceMap = !chain
  const lateRewriter = cfgs.length === 2 && rng.chance(1, 2)
  const anyChain = cfgs.some(c => c.chainSourceMap)
  // the wrapper's logger option: any object is a valid logger (levels it has no function for are skipped)
  const loggerKinds = cfgs.map(() => rng.pick(['none', 'none', 'none', 'error-only', 'debug-throws', 'empty', 'full', 'level-only']))
  // the F6 scenario (message line starting with `at`) is confined to a quarter of the runs
  const allowMsgAt = run % 4 === 3
  const files = []
  const off = rng.below(FILES.length)
  for (let fi = 0; fi < nFiles; fi++) {
    const file = FILES[(off + fi) % FILES.length]
    const nVer = rng.range(1, 4)
    const versions = []
    for (let vi = 0; vi < nVer; vi++) {
      const kind = ['mod', 'mod', 'mod', 'mod', 'plain', 'plain', 'syntaxerr'][rng.below(7)]
      const omap = anyChain && rng.chance(2, 3) ? rng.pick(['inline', 'external']) : null
      versions.push(genVersion(rng, fi, vi, kind, { file, omap, allowMsgAt, lookalikeLine: rng.chance(1, 5), bulk: run % 16 === 9 && fi === 0 && vi === 0, firstLine: rng.chance(1, 4), staleInline: rng.chance(1, 4) }))
    }
    // the same transpiled code again after its original file was moved: identical mappings, other `sources`
    const mi = versions.findIndex(v => v.kind === 'mod' && v.omap && v.omap.mode === 'inline')
    if (mi >= 0 && rng.chance(1, 3)) {
      const a = versions[mi]
      const b = JSON.parse(JSON.stringify(a))
      const mj = JSON.parse(a.omap.json)
      mj.sources = mj.sources.map(x => x.replace(/([^/]+)$/, 'moved/$1'))
      b.omap.json = JSON.stringify(mj)
      const rootOf = (x) => mj.sourceRoot && !x.startsWith('/') ? mj.sourceRoot.replace(/\/$/, '') + '/' + x : x
      const lastSrc = mj.sources[mj.sources.length - 1]
      b.omap.source = rootOf(a.omap.split ? mj.sources[mj.sources.length - 2] : lastSrc)
      b.omap.source2 = rootOf(lastSrc)
      const tl = b.text.lastIndexOf('//# sourceMappingURL=data:application/json;base64,')
      if (tl >= 0) {
        b.text = b.text.slice(0, tl) + '//# sourceMappingURL=data:application/json;base64,' + Buffer.from(b.omap.json).toString('base64') + '\n'
        b.vi = versions.length
        b.cloneOf = mi
        a.movedTwin = versions.length
        versions.push(b)
      }
    }
    // files named by a URL are only ever loaded as they are (an ES module the rewriter never saw)
    files.push({ path: file, versions, rawOnly: file.startsWith('file:') })
  }
  // twins: a second file with the same base name carries byte-identical versions (a dependency installed twice)
  if (files.length >= 2 && rng.chance(1, 4) && !files[0].rawOnly) {
    const a = files[0]
    const twinPath = path.join(path.dirname(a.path), 'node_modules/copy', path.basename(a.path))
    const twin = { path: twinPath, versions: JSON.parse(JSON.stringify(a.versions)), twinOf: 0 }
    for (const v of twin.versions) if (v.omap && v.omap.mapPath) v.omap.mapPath = path.join(path.dirname(twinPath), v.omap.url)
    files[1] = twin
  }
  // files that live only in the simulated fs (path/line lookups)
  const lookups = []
  const nLook = rng.range(0, 2)
  for (let li = 0; li < nLook; li++) {
    const p = `/sim/disk/l${li}/gen${li}.js`
    const variants = []
    for (let k = rng.range(1, 3); k > 0; k--) {
      const nLines = rng.range(3, 12)
      const toks = []
      const mult = rng.range(2, 4); const offs = rng.range(1, 30)
      for (let L = 0; L < nLines; L++) {
        toks.push({ gl: L, gc: 0, src: 0, sl: L * mult + offs, sc: 0, name: null })
        if (rng.chance(1, 2)) toks.push({ gl: L, gc: rng.range(4, 20), src: rng.below(2), sl: L * mult + offs, sc: rng.range(1, 30), name: null })
      }
      const json = smap.encodeMap({ sources: ['orig/a.ts', 'orig/b.ts'], names: [], toks })
      const body = Array.from({ length: nLines }, (_, i) => `var line${i} = ${i};`).join('\n')
      const vk = rng.pick(['inline', 'inline', 'external', 'external', 'missing-map', 'no-trailer', 'malformed', 'sections', 'absent'])
      const variant = { kind: vk, nLines, mapJson: null, mapPath: null, content: null }
      if (vk === 'inline') { variant.content = body + '\n//# sourceMappingURL=data:application/json;base64,' + Buffer.from(json).toString('base64') + '\n'; variant.mapJson = json } else if (vk === 'external') { variant.content = body + `\n//# sourceMappingURL=gen${li}.js.map\n`; variant.mapPath = path.join(path.dirname(p), `gen${li}.js.map`); variant.mapJson = json } else if (vk === 'missing-map') { variant.content = body + '\n//# sourceMappingURL=nowhere.js.map\n' } else if (vk === 'no-trailer') { variant.content = body + '\n' } else if (vk === 'malformed') { variant.content = body + '\n//# sourceMappingURL=data:application/json;base64,' + Buffer.from(json.slice(0, json.length / 2)).toString('base64') + '\n' } else if (vk === 'sections') { variant.content = body + '\n//# sourceMappingURL=data:application/json;base64,' + Buffer.from(JSON.stringify({ version: 3, sections: [{ offset: { line: 0, column: 0 }, map: JSON.parse(json) }] })).toString('base64') + '\n'; variant.mapJson = json } else { variant.content = null }
      variants.push(variant)
    }
    lookups.push({ path: p, variants })
  }
  // operations
  const nOps = tier === 'thorough' ? rng.range(8, 40) : rng.range(8, 30)
  const ops = []
  const vias = ['string', 'user', 'user-late', 'rewrapped', 'keep', 'keep']
  for (let i = 0; i < nOps; i++) {
    const f = rng.below(nFiles)
    const k = rng.weighted([8, 3, 12, 2, lookups.length ? 4 : 0, lookups.length ? 2 : 0, 1, lookups.length ? 2 : 0, 1])
    if ((k === 0 || k === 8) && files[f].rawOnly) {
      ops.push({ op: 'LoadRaw', f, v: rng.below(files[f].versions.length) })
    } else if (k === 0) {
      const v = rng.below(files[f].versions.length)
      const rwi = rng.below(cfgs.length)
      ops.push({ op: 'Rewrite', rw: rwi, f, v })
      if (rng.chance(3, 4)) ops.push({ op: 'Load', f })
      // ... and straight afterwards the twin whose original file moved
      if (files[f].versions[v].movedTwin !== undefined && rng.chance(1, 2)) {
        ops.push({ op: 'Rewrite', rw: rwi, f, v: files[f].versions[v].movedTwin })
        ops.push({ op: 'Load', f })
        ops.push({ op: 'Throw', f, site: rng.below(6), via: rng.pick(vias), cbf: rng.below(nFiles), cbsite: rng.below(6) })
      }
    } else if (k === 1) ops.push(rng.chance(1, 3) ? { op: 'LoadRaw', f, v: rng.below(files[f].versions.length) } : { op: 'Load', f })
    else if (k === 2) ops.push({ op: 'Throw', f, site: rng.below(6), via: rng.pick(vias), cbf: rng.below(nFiles), cbsite: rng.below(6) })
    else if (k === 3) ops.push(rng.chance(1, 4) ? { op: 'CaptureObj' } : { op: 'SetHandler', kind: rng.pick(['none', 'user', 'undefined', 'same', 'fragile', 'fragile']) })
    else if (k === 4) { const lf = rng.below(lookups.length); ops.push({ op: 'Lookup', lf, line: rng.chance(1, 12) ? 0 : rng.range(1, 14), col: rng.chance(1, 6) ? null : rng.range(1, 25) }) } else if (k === 5) { const lf = rng.below(lookups.length); ops.push({ op: 'FsMutate', lf, to: rng.below(lookups[lf].variants.length) }) } else if (k === 6) ops.push({ op: 'Burst', n: rng.pick([5, 50, 1001, 1100]) })
    else if (k === 7) ops.push({ op: 'FsFault', faults: [rng.pick([{ op: 'existsSync', kind: 'false' }, { op: 'existsSync', kind: 'true' }, { op: 'existsSync', kind: 'throw' }, { op: 'readFileSync', kind: 'ENOENT' }, { op: 'readFileSync', kind: 'EACCES' }, { op: 'readFileSync', kind: 'EISDIR' }, { op: 'readFileSync', kind: 'truncate' }, { op: 'readFileSync', kind: 'garbage' }])] })
    else ops.push({ op: 'NonCacheRewrite', f, v: rng.below(files[f].versions.length) })
    // the event loop turns (anything deferred with setImmediate / a resolved promise runs now)
    if (rng.chance(1, 10)) ops.push({ op: 'Tick' })
    // rarely: more than a thousand other files are rewritten through the caching rewriter
    if (run % 40 === 7 && i === (nOps >> 1)) ops.push({ op: 'RewriteBurst', n: 1001 })
  }
  // coincidence search (no draw: appended after everything else): for a file with an external original map the
  // map on disk is replaced by one that sends every position to exactly the generated line and column of one
  // site (learned from a first throw), so that only the path differs between the generated and the original location
  if (anyChain && run % 3 === 1) {
    const rwi = cfgs.findIndex(c => c.chainSourceMap)
    files.forEach((fo, fi) => {
      if (fo.rawOnly) return
      const vi = fo.versions.findIndex(v => v.kind === 'mod' && v.omap && v.omap.mode === 'external')
      if (vi < 0) return
      ops.push({ op: 'Rewrite', rw: rwi, f: fi, v: vi }, { op: 'Load', f: fi }, { op: 'Pin', f: fi, site: (run + fi) % 6 })
    })
  }
  // two more appended scenarios (no draw), in another third of the runs: Alias - the original text of a rewritten
  // file is loaded under the same name followed by a query or fragment (a file the package knows nothing about);
  // Keep - wrapped call sites are kept by the handler and read only after the file was rewritten again
  if (run % 3 === 2) {
    files.forEach((fo, fi) => {
      if (fo.rawOnly) return
      const vi = fo.versions.findIndex(v => v.kind === 'mod')
      if (vi < 0) return
      const v2 = fo.versions.findIndex((v, i) => v.kind === 'mod' && i !== vi)
      ops.push({ op: 'Rewrite', rw: 0, f: fi, v: vi }, { op: 'Load', f: fi }, { op: 'Alias', f: fi, site: (run + fi) % 6, sfx: ['?orig', '#1.bak', '?v=2#x'][(run + fi) % 3] })
      if (v2 >= 0) ops.push({ op: 'Keep', f: fi, v2, site: (run + fi + 1) % 6 })
    })
  }
  // node's own source-map support switched on (and off again) at a point of the history (`--enable-source-maps`,
  // `process.setSourceMapsEnabled`): a process-wide runtime setting the package must not depend on. No draw: the
  // operation is inserted into a quarter of the histories at a position derived from the run number
  if (run % 4 === 2) {
    ops.splice((run * 7) % (ops.length + 1), 0, { op: 'SrcMaps', on: true })
    if (run % 8 === 6) ops.splice(Math.min(ops.length, ((run * 7) % (ops.length + 1)) + 1 + (run % 5)), 0, { op: 'SrcMaps', on: false })
  }
  // the rewriter's logger may be on for the whole run (process-wide level on the Rust side)
  const logLevel = rng.pick(['off', 'off', 'off', 'debug', 'trace'])
  // two instances of the package in one process (a module reload, a duplicate copy): the second wraps the
  // first one's prepareStackTrace wrapper; files with an odd index are rewritten through the second instance
  const twoInstances = rng.chance(1, 6)
  return { cfgs, files, lookups, ops, logLevel, lateRewriter, loggerKinds, twoInstances, tag: allowMsgAt ? 'msg-at-allowed' : '' }
}

const PINS = {} // file -> {mapPath, json}: set and cleared inside one Pin operation
function fsFor (plan, file, code) {
  if (PINS[file]) return { nodes: { [PINS[file].mapPath]: { t: 'Text', v: PINS[file].json } } }
  // the disk as it is when this version of the file is rewritten: its own external map (all
  // versions of a file share one map path; a re-build overwrites it)
  const f = plan.files.find(x => x.path === file)
  if (!f) return null
  const v = f.versions.find(x => x.text === code)
  if (v && v.omap && v.omap.mapPath) return { nodes: { [v.omap.mapPath]: { t: 'Text', v: v.omap.json } } }
  return null
}

const BURST_CODE = 'function burst (a, b) { return a + b }\n'
function jobs (plan) {
  const out = []
  for (const op of plan.ops) {
    if (op.op === 'RewriteBurst') {
      for (let i = 0; i < op.n; i++) { const j = { cfg: plan.cfgs[0], prng_seed: 1, file: `/sim/burst/rw${i}.js`, code: BURST_CODE }; if (plan.logLevel && plan.logLevel !== 'off') j.log_level = plan.logLevel; out.push(j) }
      continue
    }
    if (op.op === 'Rewrite' || op.op === 'NonCacheRewrite') {
      const f = plan.files[op.f]; if (!f) continue
      const v = f.versions[op.v]; if (!v) continue
      const job = { cfg: plan.cfgs[op.rw || 0] || plan.cfgs[0], prng_seed: 1, file: f.path, code: v.text }
      if (plan.logLevel && plan.logLevel !== 'off') job.log_level = plan.logLevel
      const ff = fsFor(plan, f.path, v.text)
      if (ff) job.fs = ff
      out.push(job)
    }
  }
  return out
}

function simFile (plan, name) { return plan.files.find(f => f.path === name) }

// what the modules of the simulated world get as `require`: everything resolves to an empty object, except the one
// request that node's real loader (real frames of node:internal/modules) hands to the module seam in loader.js
const realRequire = require('module').createRequire('/sim/anchor.js')
const simRequire = (request) => request === 'sim:call-during-load' ? realRequire(request) : ({})

async function execute (plan, table) {
  const wantLog = !!process.env.VERIF_LOG
  const log = []
  const rep = { events: 0, logDigest: 0, violations: [], notes: [], stats: {}, shapes: [], cells: [] }
  const st = (k, n) => { rep.stats[k] = (rep.stats[k] || 0) + (n === undefined ? 1 : n) }
  const viol = (invariant, key, detail) => { if (!rep.violations.find(v => v.key === key)) rep.violations.push({ invariant, key, detail }) }
  if (typeof process.setSourceMapsEnabled === 'function' && process.sourceMapsEnabled) process.setSourceMapsEnabled(false)
  const simfs = new SimFs()
  const adapter = makeAdapter(table, { fsFor: (file, code) => fsFor(plan, file, code), logLevel: plan.logLevel && plan.logLevel !== 'off' ? plan.logLevel : null })
  const { pkg } = loadPackage(adapter, simfs.module)
  // a second, independent instance of the package (own caches, own marker symbol)
  const pkgB = plan.twoInstances ? loadPackage(adapter, simfs.module).pkg : null
  const wrapPST = (value) => pkgB ? pkgB.getPrepareStackTrace(pkg.getPrepareStackTrace(value)) : pkg.getPrepareStackTrace(value)
  if (pkgB) st('probe:two-package-instances')
  const origPST = Object.getOwnPropertyDescriptor(Error, 'prepareStackTrace')
  const origLimit = Error.stackTraceLimit
  Error.stackTraceLimit = 30
  // handler state through the accessor pattern of integration-test/setup.js
  let userHandler
  let actual = wrapPST(userHandler)
  let lastRaw = null
  let handlerThrew = null
  const capture = (cs) => {
    const g = (f) => { try { return f() } catch (e) { return undefined } }
    return { file: g(() => cs.getFileName()), line: g(() => cs.getLineNumber()), col: g(() => cs.getColumnNumber()), fn: g(() => cs.getFunctionName()), method: g(() => cs.getMethodName()), isEval: g(() => cs.isEval()), evalOrigin: g(() => cs.getEvalOrigin()), str: g(() => cs.toString()) }
  }
  Object.defineProperty(Error, 'prepareStackTrace', {
    configurable: true,
    get () {
      const a = actual
      return function (err, cs) {
        lastRaw = cs.map(capture)
        try { return a(err, cs) } catch (e) { handlerThrew = e; return 'HANDLER-THREW ' + (e && e.message) }
      }
    },
    set (value) { actual = wrapPST(value); userHandler = value }
  })
  const GETTERS = ['getThis', 'getTypeName', 'getFunction', 'getFunctionName', 'getMethodName', 'getFileName', 'getScriptNameOrSourceURL', 'getLineNumber', 'getColumnNumber', 'getEvalOrigin', 'isToplevel', 'isEval', 'isNative', 'isConstructor', 'toString']
  const mkUser = (tag) => function userPST (err, callSites) {
    const out = []
    for (const c of callSites) {
      const o = { tag }
      for (const g of GETTERS) {
        try { o[g] = typeof c[g] === 'function' ? c[g]() : '<missing>' } catch (e) { o['threw:' + g] = String(e && e.message) }
      }
      o.wrapped = c.constructor && c.constructor.name
      out.push(o)
    }
    return out
  }

  // a user handler that (like many real ones) assumes an Error: it throws a TypeError on other objects
  let fragileInstalled = false
  const mkFragile = (tag) => { const base = mkUser(tag); return function fragilePST (err, callSites) { err.message.trim(); return base(err, callSites) } }
  // the second instance may be constructed only when it is first used (after the first one has rewritten files)
  const withLogger = (c, i) => {
    const kind = (plan.loggerKinds || [])[i] || 'none'
    if (kind === 'none') return c
    const sink = () => {}
    const logger = kind === 'error-only' ? { error: sink } : kind === 'debug-throws' ? { error: sink, debug () { throw new Error('logger.debug failed') }, info () { throw new Error('logger.info failed') } } : kind === 'empty' ? {} : kind === 'full' ? { error: sink, warn: sink, info: sink, debug: sink, trace: sink } : undefined
    st('probe:rewriter-with-logger-option')
    return Object.assign({}, c, logger ? { logger, logLevel: 'DEBUG' } : { logLevel: 'DEBUG', logger: { error: sink } })
  }
  const rewriters = plan.cfgs.map((c, i) => (plan.lateRewriter && i > 0) ? null : new pkg.Rewriter(withLogger(c, i)))
  const nonCache = new pkg.NonCacheRewriter(plan.cfgs[0])
  let rewriterB = null
  const L = {} // file -> {id, v, status, content, rw}
  const everModified = {} // file -> true once a modified rewrite was cached
  const loaded = {} // file -> {id|null, v, exports, rewritten}
  let rewriteId = 0
  const lookupState = plan.lookups.map(l => ({ cur: 0, served: new Set([0]), faulted: false }))
  plan.lookups.forEach((l, i) => applyVariant(l, l.variants[0]))
  const hist = []
  let seq = 0

  function applyVariant (l, variant) {
    for (const v of l.variants) if (v.mapPath) simfs.delete(v.mapPath)
    if (variant.content === null) simfs.delete(l.path); else simfs.set(l.path, variant.content)
    if (variant.mapPath) simfs.set(variant.mapPath, variant.mapJson)
  }

  function expectedFor (fileObj, ver, siteLine, rwCfg) {
    // the original (path, line) a position on `siteLine` of version `ver` must be reported as
    if (rwCfg.chainSourceMap && ver.omap) {
      const L = siteLine - 1
      const om = ver.omap
      if (om.split && L >= om.split) return { path: om.source2.startsWith('/') ? om.source2 : path.join(path.dirname(fileObj.path), om.source2), line: (L - om.split) * om.mult + ((om.split - 1) * om.mult + om.off) + 1, chained: true, second: true }
      return { path: om.source.startsWith('/') ? om.source : path.join(path.dirname(fileObj.path), om.source), line: L * om.mult + om.off + 1, chained: true }
    }
    return { path: fileObj.path, line: siteLine, chained: false }
  }

  function parseFn (name) {
    const m = /f(\d+)v(\d+)s(\d+)(c?)/.exec(name || '')
    if (!m) return null
    return { fi: +m[1], vi: +m[2], k: +m[3], caller: m[4] === 'c' }
  }

  function checkFrames (op, via, result, siteKindOfThrow, lineOverride, expectedHead) {
    // per-frame expectations from the reference model
    const raw = lastRaw || []
    const isString = typeof result === 'string'
    const outLines = isString ? result.split('\n') : null
    let firstAt = -1
    if (isString) {
      // frames are the last raw.length lines of V8's own formatting
      firstAt = outLines.length - raw.length
    }
    const msgAt = siteKindOfThrow === 'msg-at'
    const seenFns = new Set() // function names already met further in (recursive sites)
    raw.forEach((r0, i) => {
      let r = r0
      if (r0.isEval && isString) {
        // the string path translates the position of the eval call inside the rewritten file
        const m = /eval at (\S+) \((.+):(\d+):(\d+)\)/.exec(String(r0.evalOrigin || ''))
        if (m && simFile(plan, m[2])) r = { file: m[2], line: +m[3], col: +m[4], fn: m[1], isEval: false, viaEval: true }
      }
      const fo = r.file && simFile(plan, r.file)
      let exp = null; let why = 'unchanged'
      let key = null
      if (fo && !r.isEval) {
        const id = parseFn(r.fn)
        const lx = L[fo.path]
        const ld = loaded[fo.path]
        if (r.fn === 'mkErr' && lx && ld && lx.status === 'modified' && ld.id === lx.id && plan.cfgs[lx.rw].chainSourceMap && fo.versions[ld.v].omap && fo.versions[ld.v].omap.gap > 0) st('probe:frame-in-unmapped-region-of-chained-map')
        // the functions of a moved twin carry the names of the version it was cloned from
        if (id && ld && fo.versions[ld.v] && fo.versions[ld.v].cloneOf === id.vi) id.vi = ld.v
        if (lx && ld && id && fo.versions[id.vi] && ld.v === id.vi) {
          const ver = fo.versions[id.vi]
          const site = ver.sites[id.k]
          // a recursive site: the innermost frame is where the Error is created, the outer frames of the same
          // function are at its recursive call (another original line of the same statement)
          const outerRecursion = site && site.kind === 'recursive' && seenFns.has(r.fn)
          seenFns.add(r.fn)
          const siteLine = site ? (id.caller || outerRecursion ? site.cbLine : (lineOverride && lineOverride.fn === site.fn ? lineOverride.line : site.line)) : 0
          const cfgL = plan.cfgs[lx.rw]
          // the original map covers the file from (0-based) line `gap` on: 1-based line L is unmapped iff L <= gap
          const inHole = ver.omap && ver.omap.hole && siteLine - 1 >= ver.omap.hole[0] && siteLine - 1 < ver.omap.hole[1]
          const unmapped = cfgL.chainSourceMap && ver.omap && siteLine > 0 && (siteLine <= (ver.omap.gap || 0) || inHole)
          if (unmapped && ld.id === lx.id && lx.status === 'modified') {
            // no original location: the position is reported as it is (it must not inherit a neighbour's)
            exp = { path: r.file, line: r.line }
            why = 'position in a region the original map does not cover (or covers with source-less segments): reported unchanged'
            st('probe:frame-in-unmapped-region-of-chained-map')
          } else if (ld.id === lx.id && lx.status === 'modified' && ld.rewritten && siteLine) {
            exp = expectedFor(fo, ver, siteLine, plan.cfgs[lx.rw]); why = 'latest rewrite is modified and is the running code'
            st('probe:frame-in-rewritten-file')
            if (exp.chained) st('probe:frame-through-chained-map')
            if (exp.second) st('probe:frame-in-second-source-of-bundle-map')
          } else if (ld.id === lx.id && lx.status !== 'modified') {
            exp = { path: r.file, line: r.line }; why = `latest rewrite is ${lx.status}: the running code is the original text`
            if (everModified[fo.path]) { key = 'stale-map:after-notmodified'; st('probe:notmodified-after-modified') }
          } else {
            why = 'stale code (a newer rewrite exists): no positional expectation'
            st('probe:throw-from-stale-code')
          }
        } else if (!lx) {
          exp = { path: r.file, line: r.line }; why = 'file never rewritten through the caching rewriter'
          st('probe:frame-in-never-rewritten-file')
        }
      } else if (!fo) {
        exp = { path: r.file, line: r.line }
      }
      if (r0.isEval) st('probe:eval-frame')
      if (r.viaEval) st('probe:eval-origin-translated')
      // what was reported
      let got = null
      if (!isString) {
        const o = Array.isArray(result) ? result[i] : null
        if (o) {
          for (const k of Object.keys(o)) if (k.startsWith('threw:')) viol('N1', 'N1:callsite-getter-threw', `WrappedCallSite.${k.slice(6)} threw: ${o[k]}`)
          got = { path: o.getFileName, line: o.getLineNumber }
        }
      } else if (firstAt >= 0) {
        const line = outLines[firstAt + i] || ''
        got = { text: line }
      }
      // two instances, no user handler: the outer instance hands its wrapped call sites to the inner instance's
      // wrapper, which formats V8's string from raw lines - files of the outer instance stay untranslated on
      // the unchanged tree (not pursued, DESIGN section 10): no positional expectation there
      if (pkgB && isString && fo && L[fo.path] && L[fo.path].inst === 'B') { st('probe:two-instances-string-flavour-skipped'); return }
      if (!exp || !got) return
      const kk = (k) => key || (msgAt && isString ? 'string-path:message-line-starts-with-at' : k)
      if (got.text !== undefined) {
        if (exp.path == null) return
        const want = `${exp.path}:${exp.line}:`
        if (!got.text.includes(want)) {
          viol('P1', kk('P1:string-path-wrong-position'), `[op #${seq} Throw via=${via}] frame ${i} (${r.fn} at ${r.file}:${r.line}:${r.col}) should read ${want}… (${why}) but the stack line is: ${got.text.trim()}`)
        }
      } else {
        if (got.path !== exp.path || got.line !== exp.line) {
          viol('P1', kk('P1:structured-path-wrong-position'), `[op #${seq} Throw via=${via}] frame ${i} (${r.fn} at ${r.file}:${r.line}:${r.col}) should be reported as ${exp.path}:${exp.line} (${why}) but the wrapped call site says ${got.path}:${got.line}`)
        }
      }
    })
    if (isString && !result.startsWith('HANDLER-THREW') && firstAt > 0) {
      const head = outLines.slice(0, firstAt).join('\n')
      if (expectedHead != null && head !== expectedHead) viol('P4', msgAt ? 'string-path:message-line-starts-with-at' : 'P4:string-path-message-altered', `[op #${seq}] the message part of the stack was altered: ${JSON.stringify(head).slice(0, 200)} instead of ${JSON.stringify(expectedHead).slice(0, 200)}`)
    }
    if (isString) {
      // same number of lines as V8's own formatting: message lines + one per frame
      if (result.startsWith('HANDLER-THREW')) return
      const v8Lines = raw.length
      const frameLines = outLines.filter(l => /^\s+at /.test(l)).length
      if (frameLines < v8Lines) viol('P2', msgAt ? 'string-path:message-line-starts-with-at' : 'P2:string-path-lost-frames', `[op #${seq}] ${v8Lines} call sites but ${frameLines} frame lines in the formatted stack`)
    }
  }

  for (const op of plan.ops) {
    rep.events++
    if (op.op === 'Tick') { await new Promise((resolve) => setImmediate(resolve)); st('fault:event-loop-turn'); hist.push(['Tick', 0, '-']); seq++; continue }
    if (op.op === 'SrcMaps') { if (typeof process.setSourceMapsEnabled === 'function') process.setSourceMapsEnabled(!!op.on); st(op.on ? 'fault:node-source-maps-enabled' : 'fault:node-source-maps-disabled'); hist.push(['SrcMaps', 0, op.on ? 'on' : 'off']); log.push(`#${seq} SrcMaps ${op.on ? 'on' : 'off'}`); seq++; continue }
    try {
      if (op.op === 'Rewrite' || op.op === 'NonCacheRewrite') {
        const f = plan.files[op.f]; const ver = f && f.versions[op.v]
        if (!f || !ver) { seq++; continue }
        const cache = op.op === 'Rewrite'
        if (cache && plan.lateRewriter && plan.cfgs[op.rw] && !rewriters[op.rw]) { rewriters[op.rw] = new pkg.Rewriter(withLogger(plan.cfgs[op.rw], op.rw)); st('probe:rewriter-constructed-after-files-were-rewritten', rewriteId > 0 ? 1 : 0) }
        const viaB = cache && pkgB && op.f % 2 === 1
        if (viaB && !rewriterB) rewriterB = new pkgB.Rewriter(plan.cfgs[0])
        const rw = viaB ? rewriterB : cache ? rewriters[op.rw] || rewriters[0] : nonCache
        const rwIdx = viaB ? 0 : cache ? (rewriters[op.rw] ? op.rw : 0) : 0
        let resp = null; let status = 'failed'
        try {
          resp = rw.rewrite(ver.text, f.path)
          status = (resp.metrics && resp.metrics.status) || 'unknown'
        } catch (e) {
          status = 'failed'
          if (!/Cancelling|error|Error|expected|Unexpected|rewriter/i.test(String(e && e.message))) rep.notes.push('odd rewrite error: ' + String(e && e.message).slice(0, 80))
        }
        const prev = L[f.path]
        const rel = !prev ? 'first' : prev.v === op.v ? `same-${status}` : `newer-${status}`
        if (cache) {
          const id = ++rewriteId
          // a failing rewrite throws before the cache is touched: nothing was rewritten, the module loaded
          // before keeps running, and the latest SUCCESSFUL rewrite stays the one lookups must use
          if (status === 'failed' && prev && prev.status !== 'failed') st('probe:failed-rewrite-after-a-successful-one')
          else L[f.path] = { id, v: op.v, status, content: resp && resp.content, rw: rwIdx, inst: viaB ? 'B' : 'A' }
          if (status === 'modified') everModified[f.path] = true
          if (prev && prev.rw !== rwIdx) st('probe:rewrite-by-second-rewriter-instance')
          if (prev) st('probe:file-rewritten-again')
        } else {
          st('probe:non-cache-rewrite')
          // kept for a possible Load of exactly this response
          L[f.path + '#nc'] = { v: op.v, status, content: resp && resp.content }
        }
        hist.push([op.op, op.f, rel])
        rep.cells.push(`${op.op}:${rel}`)
        log.push(`#${seq} ${op.op} rw=${rwIdx} f=${op.f} v=${op.v} -> ${status}`)
        st('op:' + op.op)
      } else if (op.op === 'Load') {
        const f = plan.files[op.f]; const lx = f && L[f.path]
        if (!f || !lx || lx.status === 'failed' || lx.content == null) { log.push(`#${seq} Load f=${op.f} skipped`); seq++; continue }
        const ver = f.versions[lx.v]
        const rewritten = lx.status === 'modified'
        const code = rewritten ? lx.content : ver.text
        const mod = { exports: {} }
        try {
          const fn = vm.compileFunction(code, ['exports', 'require', 'module', '__filename', '__dirname'], { filename: f.path })
          fn.call(mod.exports, mod.exports, simRequire, mod, f.path, path.dirname(f.path))
          loaded[f.path] = { id: lx.id, v: lx.v, exports: mod.exports, rewritten }
          log.push(`#${seq} Load f=${op.f} v=${lx.v} rewritten=${rewritten}`)
        } catch (e) {
          viol('N2', 'N2:rewritten-module-does-not-load', `[op #${seq}] loading what the rewriter returned for ${f.path} v${lx.v} failed: ${e && e.message}`)
        }
        hist.push(['Load', op.f, rewritten ? 'rw' : 'orig'])
        st('op:Load')
      } else if (op.op === 'LoadRaw') {
        // the original text of a version, loaded without going through any rewriter
        const f = plan.files[op.f]; const ver = f && f.versions[op.v]
        if (!f || !ver || ver.kind === 'syntaxerr') { seq++; continue }
        // the file is on the (simulated) disk as well, with whatever map reference it carries
        simfs.set(f.path, ver.text)
        if (ver.omap && ver.omap.mapPath) simfs.set(ver.omap.mapPath, ver.omap.json)
        st('probe:never-rewritten-file-with-a-map-on-disk', ver.omap ? 1 : 0)
        const mod = { exports: {} }
        try {
          const fn = vm.compileFunction(ver.text, ['exports', 'require', 'module', '__filename', '__dirname'], { filename: f.path })
          fn.call(mod.exports, mod.exports, simRequire, mod, f.path, path.dirname(f.path))
          loaded[f.path] = { id: null, v: op.v, exports: mod.exports, rewritten: false }
        } catch (e) { rep.notes.push('LoadRaw failed: ' + String(e && e.message).slice(0, 80)) }
        hist.push(['LoadRaw', op.f, 'orig'])
        log.push(`#${seq} LoadRaw f=${op.f} v=${op.v}`)
        st('op:LoadRaw')
      } else if (op.op === 'SetHandler') {
        if (op.kind === 'none' || op.kind === 'undefined') { Error.prepareStackTrace = undefined; fragileInstalled = false } else if (op.kind === 'user') { Error.prepareStackTrace = mkUser('u' + seq); fragileInstalled = false } else if (op.kind === 'fragile') { Error.prepareStackTrace = mkFragile('f' + seq); fragileInstalled = true } else if (!pkgB) Error.prepareStackTrace = actual // 'same': an already wrapped handler is handed back (with two instances each one only knows its own marker and would wrap the other's wrapper again: not pursued)
        hist.push(['SetHandler', 0, op.kind])
        log.push(`#${seq} SetHandler ${op.kind}`)
        st('op:SetHandler')
      } else if (op.op === 'CaptureObj') {
        // a stack captured on a plain object (no message): a fragile user handler throws on it
        const o = {}
        Error.captureStackTrace(o)
        lastRaw = null; handlerThrew = null
        let got
        try { got = o.stack } catch (e) { viol('N1', 'N1:stack-access-threw', `[op #${seq}] reading the stack of a captured object threw: ${e && e.message}`) }
        if (handlerThrew && !(fragileInstalled && handlerThrew instanceof TypeError)) viol('N1', 'N1:prepareStackTrace-threw', `[op #${seq} CaptureObj] the package's prepareStackTrace threw: ${handlerThrew && handlerThrew.message}`)
        if (handlerThrew && fragileInstalled) st('fault:user-handler-threw')
        hist.push(['CaptureObj', 0, fragileInstalled ? 'fragile' : typeof got])
        log.push(`#${seq} CaptureObj fragile=${fragileInstalled} threw=${!!handlerThrew}`)
        st('op:CaptureObj')
      } else if (op.op === 'Throw') {
        const f = plan.files[op.f]; const ld = f && loaded[f.path]
        if (!f || !ld) { log.push(`#${seq} Throw f=${op.f} skipped (not loaded)`); seq++; continue }
        const ver = f.versions[ld.v]
        const site = ver.sites[op.site % ver.sites.length]
        const fnName = site.entry || site.fn
        const fn = ld.exports[fnName]
        if (typeof fn !== 'function') { log.push(`#${seq} Throw skipped (no ${fnName})`); seq++; continue }
        // callback sites get a site function of (possibly) another loaded file
        let cb = null; let cbKind = null
        if (site.kind === 'callback') {
          const cf = plan.files[op.cbf]; const cld = cf && loaded[cf.path]
          if (cld) {
            const cver = cf.versions[cld.v]
            const cs = cver.sites.filter(s => !['callback', 'throw', 'method', 'helper', 'double', 'evalfn', 'msg-loc', 'builtin-callback'].includes(s.kind))
            if (cs.length) { const c = cs[op.cbsite % cs.length]; cb = cld.exports[c.fn]; cbKind = c.kind; if (cf.path !== f.path) st('probe:cross-file-stack') }
          }
          if (typeof cb !== 'function') cb = function plainCallback () { return new Error('cb') }
        }
        if (op.via === 'string') { Error.prepareStackTrace = undefined; fragileInstalled = false } else if (op.via === 'user' || op.via === 'user-late') { Error.prepareStackTrace = mkUser('t' + seq); fragileInstalled = false } else if (op.via === 'rewrapped') { Error.prepareStackTrace = mkUser('t' + seq); if (!pkgB) { const a = actual; Error.prepareStackTrace = a }; fragileInstalled = false }
        // via 'keep': whatever handler is installed stays (the same wrapper function keeps formatting)
        let err
        try { err = fn('arg', cb) } catch (e) { err = e }
        if (site.kind === 'msg-loc' && err && typeof err === 'object') {
          // learn this frame's raw location from the first call, then make the message contain it
          lastRaw = null
          try { void err.stack } catch (e) {}
          const top = lastRaw && lastRaw.find(r => r.fn === site.fn)
          if (top) {
            try { err = fn('arg', cb, `deprecated call at ${top.file}:${top.line}:${top.col} (see docs)`) } catch (e) { err = e }
            st('probe:message-contains-own-frame-location')
          }
        }
        if (site.kind === 'evalfn' && typeof err === 'function') { try { err = err() } catch (e) { err = e }; st('probe:eval-made-function-called-from-outside') }
        const errs = Array.isArray(err) ? [{ e: err[0], line: site.line }, { e: err[1], line: site.line2 }] : [{ e: err, line: null }]
        for (const item of errs) {
          lastRaw = null; handlerThrew = null
          let result
          try { result = item.e && item.e.stack } catch (e) { viol('N1', 'N1:stack-access-threw', `[op #${seq}] reading error.stack threw: ${e && e.message}`) }
          if (handlerThrew) viol('N1', 'N1:prepareStackTrace-threw', `[op #${seq} via=${op.via}] the package's prepareStackTrace threw: ${handlerThrew && handlerThrew.message}`)
          if (lastRaw) {
            let head = null
            try { head = item.e && typeof item.e.message === 'string' && item.e.name ? `${item.e.name}: ${item.e.message}` : null } catch (e) {}
            if (head != null && item.e.message === '') head = item.e.name
            checkFrames(op, op.via, result, site.kind === 'callback' ? cbKind : site.kind, item.line ? { fn: site.fn, line: item.line } : null, head)
            st('throws-checked')
            st('frames-checked', lastRaw.length)
            st(typeof result === 'string' ? 'probe:string-path' : 'probe:structured-path')
            if (errs.length > 1) st('probe:two-stacks-from-one-expression')
          }
        }
        const lx = L[f.path]
        const rel = !lx ? 'never' : lx.id === ld.id ? `current-${lx.status}` : 'stale'
        hist.push(['Throw', op.f, rel + ':' + op.via])
        rep.cells.push(`Throw:${site.kind}:${rel}:${op.via}`)
        log.push(`#${seq} Throw f=${op.f} v=${ld.v} site=${site.k}(${site.kind}) via=${op.via} rel=${rel} frames=${lastRaw ? lastRaw.length : '-'} top=${lastRaw && lastRaw[0] ? lastRaw[0].line : '-'}`)
        st('op:Throw')
      } else if (op.op === 'Pin') {
        const f = plan.files[op.f]; const ld = f && loaded[f.path]; const lx = f && L[f.path]
        const ver = ld && f.versions[ld.v]
        const cfgP = lx && plan.cfgs[lx.rw]
        const rwP = lx && rewriters[lx.rw]
        const okSites = ver ? ver.sites.filter(x => ['body', 'operand', 'arrow', 'far-column', 'multiline'].includes(x.kind)) : []
        if (!ld || !lx || ld.id !== lx.id || lx.status !== 'modified' || lx.inst !== 'A' || !rwP || !cfgP || !cfgP.chainSourceMap || !ver.omap || ver.omap.mode !== 'external' || !okSites.length) { log.push(`#${seq} Pin f=${op.f} skipped`); seq++; continue }
        const site = okSites[op.site % okSites.length]
        const fn = ld.exports[site.entry || site.fn]
        if (typeof fn !== 'function') { seq++; continue }
        const throwOnce = () => { let e; try { e = fn('arg', null) } catch (x) { e = x } return Array.isArray(e) ? e[0] : e }
        Error.prepareStackTrace = undefined; fragileInstalled = false
        lastRaw = null
        let e1 = throwOnce(); try { void (e1 && e1.stack) } catch (e) {}
        const top = lastRaw && lastRaw.find(r => r.file === f.path && r.fn === site.fn && !r.isEval)
        if (!top || !(top.line >= 1) || !(top.col >= 1)) { log.push(`#${seq} Pin f=${op.f} no frame`); seq++; continue }
        const toks = []
        for (let Ln = 0; Ln < ver.nLines + 4; Ln++) toks.push({ gl: Ln, gc: 0, src: 0, sl: top.line - 1, sc: top.col - 1, name: null })
        const pinnedSource = 'pinned/layout.ts'
        const pinnedPath = path.join(path.dirname(f.path), pinnedSource)
        PINS[f.path] = { mapPath: ver.omap.mapPath, json: smap.encodeMap({ file: path.basename(f.path), sources: [pinnedSource], names: [], toks }) }
        let st2 = 'failed'
        try {
          try { const r2 = rwP.rewrite(ver.text, f.path); st2 = r2 && r2.metrics && r2.metrics.status } catch (e) {}
          if (st2 === 'modified') {
            st('probe:generated-position-equals-original-position')
            const want = `${pinnedPath}:${top.line}:${top.col}`
            const raw = `${f.path}:${top.line}:${top.col}`
            // string flavour
            lastRaw = null; handlerThrew = null
            e1 = throwOnce(); let s1; try { s1 = e1 && e1.stack } catch (e) {}
            if (handlerThrew) viol('N1', 'N1:prepareStackTrace-threw', `[op #${seq} Pin] the package's prepareStackTrace threw: ${handlerThrew && handlerThrew.message}`)
            if (typeof s1 === 'string' && lastRaw && lastRaw.find(r => r.file === f.path && r.line === top.line && r.col === top.col)) {
              if (!s1.includes(want) || s1.includes(raw)) viol('P1', 'P1:string-path-coincident-position', `[op #${seq}] the original map sends ${raw} to the same line and column of ${pinnedPath}; the formatted stack reads ${JSON.stringify(s1.split('\n').filter(l => l.includes(f.path) || l.includes(pinnedPath)).slice(0, 3))}`)
            }
            // structured flavour
            Error.prepareStackTrace = mkUser('pin' + seq)
            lastRaw = null; handlerThrew = null
            e1 = throwOnce(); let s2; try { s2 = e1 && e1.stack } catch (e) {}
            if (Array.isArray(s2) && lastRaw) {
              const i = lastRaw.findIndex(r => r.file === f.path && r.line === top.line && r.col === top.col)
              if (i >= 0 && s2[i] && (s2[i].getFileName !== pinnedPath || s2[i].getLineNumber !== top.line)) viol('P1', 'P1:structured-path-coincident-position', `[op #${seq}] the original map sends ${raw} to the same line and column of ${pinnedPath}; the wrapped call site reports ${s2[i].getFileName}:${s2[i].getLineNumber}:${s2[i].getColumnNumber}`)
            }
            Error.prepareStackTrace = undefined
          }
        } finally {
          delete PINS[f.path]
          // the map on disk is put back and the file rewritten once more: the caches are as they were
          try { rwP.rewrite(ver.text, f.path) } catch (e) {}
        }
        hist.push(['Pin', op.f, st2])
        rep.cells.push(`Pin:${site.kind}:${st2}`)
        log.push(`#${seq} Pin f=${op.f} v=${ld.v} site=${site.k}(${site.kind}) at ${top.line}:${top.col} -> ${st2}`)
        st('op:Pin')
      } else if (op.op === 'Alias') {
        const f = plan.files[op.f]; const ld = f && loaded[f.path]; const lx = f && L[f.path]
        const ver = ld && f.versions[ld.v]
        const okSites = ver ? ver.sites.filter(x => ['body', 'operand', 'arrow', 'far-column', 'multiline'].includes(x.kind)) : []
        if (!ld || !lx || ld.id !== lx.id || lx.status !== 'modified' || !okSites.length) { log.push(`#${seq} Alias f=${op.f} skipped`); seq++; continue }
        const alias = f.path + op.sfx
        const site = okSites[op.site % okSites.length]
        const mod = { exports: {} }
        let afn = null
        try {
          const cf = vm.compileFunction(ver.text, ['exports', 'require', 'module', '__filename', '__dirname'], { filename: alias })
          cf.call(mod.exports, mod.exports, simRequire, mod, alias, path.dirname(f.path))
          afn = mod.exports[site.entry || site.fn]
        } catch (e) {}
        if (typeof afn !== 'function') { seq++; continue }
        const throwOnce = () => { let e; try { e = afn('arg', null) } catch (x) { e = x } return Array.isArray(e) ? e[0] : e }
        st('probe:unknown-file-named-like-a-rewritten-one')
        Error.prepareStackTrace = undefined; fragileInstalled = false
        lastRaw = null; handlerThrew = null
        let e1 = throwOnce(); let s1; try { s1 = e1 && e1.stack } catch (e) {}
        if (handlerThrew) viol('N1', 'N1:prepareStackTrace-threw', `[op #${seq} Alias] the package's prepareStackTrace threw: ${handlerThrew && handlerThrew.message}`)
        if (typeof s1 === 'string' && lastRaw) {
          for (const r of lastRaw) if (r.file === alias && !r.isEval && !s1.includes(`${alias}:${r.line}:${r.col}`)) { viol('P5', 'P5:string-path-unknown-file-altered', `[op #${seq}] ${alias} was never rewritten (only ${f.path} was); its frame ${r.line}:${r.col} is not reported unchanged: ${JSON.stringify(s1.split('\n').filter(l => l.includes(f.path)).slice(0, 3))}`); break }
        }
        Error.prepareStackTrace = mkUser('alias' + seq)
        lastRaw = null; handlerThrew = null
        e1 = throwOnce(); let s2; try { s2 = e1 && e1.stack } catch (e) {}
        if (Array.isArray(s2) && lastRaw) {
          lastRaw.forEach((r, i) => { if (r.file === alias && !r.isEval && s2[i] && (s2[i].getFileName !== alias || s2[i].getLineNumber !== r.line)) viol('P5', 'P5:structured-path-unknown-file-altered', `[op #${seq}] ${alias} was never rewritten (only ${f.path} was); its frame ${r.line}:${r.col} is reported as ${s2[i].getFileName}:${s2[i].getLineNumber}`) })
        }
        Error.prepareStackTrace = undefined
        hist.push(['Alias', op.f, op.sfx[0]])
        rep.cells.push(`Alias:${site.kind}:${op.sfx[0]}`)
        log.push(`#${seq} Alias f=${op.f} v=${ld.v} ${op.sfx}`)
        st('op:Alias')
      } else if (op.op === 'Keep') {
        const f = plan.files[op.f]; const ld = f && loaded[f.path]; const lx = f && L[f.path]
        const ver = ld && f.versions[ld.v]
        const ver2 = f && f.versions[op.v2]
        const rwP = lx && rewriters[lx.rw]
        const okSites = ver ? ver.sites.filter(x => ['body', 'operand', 'arrow', 'far-column', 'multiline', 'method'].includes(x.kind)) : []
        if (pkgB || !ld || !lx || ld.id !== lx.id || lx.status !== 'modified' || lx.inst !== 'A' || !rwP || !ver2 || ld.v === op.v2 || !okSites.length) { log.push(`#${seq} Keep f=${op.f} skipped`); seq++; continue }
        const site = okSites[op.site % okSites.length]
        const fn = ld.exports[site.entry || site.fn]
        if (typeof fn !== 'function') { seq++; continue }
        const throwOnce = () => { let e; try { e = fn('arg', null) } catch (x) { e = x } return Array.isArray(e) ? e[0] : e }
        // reference: the getters read at once
        Error.prepareStackTrace = mkUser('keepref' + seq); fragileInstalled = false
        lastRaw = null
        let e0 = throwOnce(); let ref; try { ref = e0 && e0.stack } catch (e) {}
        const raw0 = lastRaw
        // the same throw, the handler keeps the call sites it is given
        Error.prepareStackTrace = function keeper (err, cs) { return cs }
        lastRaw = null
        e0 = throwOnce(); let kept; try { kept = e0 && e0.stack } catch (e) {}
        const raw1 = lastRaw
        const same = Array.isArray(ref) && Array.isArray(kept) && raw0 && raw1 && raw0.length === raw1.length && raw0.every((r, i) => r.file === raw1[i].file && (r.file !== f.path || (r.line === raw1[i].line && r.col === raw1[i].col)))
        let st2 = 'skipped'
        if (same) {
          try { const r2 = rwP.rewrite(ver2.text, f.path); st2 = (r2 && r2.metrics && r2.metrics.status) || 'unknown' } catch (e) { st2 = 'failed' }
          if (st2 === 'modified') {
            st('probe:kept-call-sites-read-after-the-file-was-rewritten-again')
            raw1.forEach((r, i) => {
              if (r.file !== f.path || !kept[i] || !ref[i] || typeof kept[i].getFileName !== 'function') return
              let now
              try { now = { file: kept[i].getFileName(), line: kept[i].getLineNumber(), col: kept[i].getColumnNumber() } } catch (e) { viol('N1', 'N1:callsite-getter-threw', `[op #${seq} Keep] a wrapped call site getter threw: ${e && e.message}`); return }
              if (now.file !== ref[i].getFileName || now.line !== ref[i].getLineNumber || now.col !== ref[i].getColumnNumber) viol('P1', 'P1:kept-call-site-changes-after-rewrite', `[op #${seq}] a call site of ${f.path} (raw ${r.line}:${r.col}) prepared while version ${ld.v} was the latest rewrite read ${ref[i].getFileName}:${ref[i].getLineNumber}:${ref[i].getColumnNumber} at once, but reads ${now.file}:${now.line}:${now.col} after the file was rewritten again (version ${op.v2})`)
            })
          }
          // back to the running version: the caches are as they were
          try { rwP.rewrite(ver.text, f.path) } catch (e) {}
        }
        Error.prepareStackTrace = undefined
        hist.push(['Keep', op.f, st2])
        rep.cells.push(`Keep:${site.kind}:${st2}`)
        log.push(`#${seq} Keep f=${op.f} v=${ld.v} v2=${op.v2} -> ${st2}`)
        st('op:Keep')
      } else if (op.op === 'Lookup') {
        const l = plan.lookups[op.lf]; const s = lookupState[op.lf]
        if (!l) { seq++; continue }
        let ans
        // the column is optional (defaults to 0, i.e. before the first column of the line)
        const col = op.col == null ? 0 : op.col
        try { ans = op.col == null ? pkg.getOriginalPathAndLineFromSourceMap(l.path, op.line) : pkg.getOriginalPathAndLineFromSourceMap(l.path, op.line, op.col) } catch (e) { viol('N1', 'N1:lookup-threw', `[op #${seq}] getOriginalPathAndLineFromSourceMap threw: ${e && e.message}`) }
        if (Object.keys(simfs.fired).length) s.faulted = true
        if (ans) {
          const allowed = []
          for (const k of s.served) {
            const variant = l.variants[k]
            let e = { path: l.path, line: op.line }
            if (variant.kind === 'sections') allowed.push(e) // node's SourceMap understands index maps: either answer
            if (variant.mapJson !== undefined && (variant.kind === 'inline' || variant.kind === 'external' || variant.kind === 'sections')) {
              const m = smap.decodeMap(variant.mapJson)
              const g = op.line >= 1 ? smap.glbAll(m, op.line - 1, col - 1) : []
              if (g.length) allowed.push(...g.map(t => ({ path: path.join(path.dirname(l.path), m.sources[t.src]), line: t.sl + 1 })))
              else allowed.push(e)
            } else allowed.push(e)
          }
          if (s.faulted) allowed.push({ path: l.path, line: op.line })
          if (!allowed.find(a => a.path === ans.path && a.line === ans.line)) {
            viol('P3', 'P3:lookup-wrong-answer', `[op #${seq}] lookup ${l.path}:${op.line}:${op.col} answered ${ans.path}:${ans.line}; allowed by the versions of the map served so far: ${JSON.stringify(allowed.slice(0, 4))}`)
          }
          if (ans.path !== l.path) st('probe:lookup-translated')
        }
        hist.push(['Lookup', op.lf, l.variants[s.cur].kind])
        rep.cells.push(`Lookup:${l.variants[s.cur].kind}`)
        log.push(`#${seq} Lookup lf=${op.lf} ${op.line}:${op.col} -> ${ans && ans.path}:${ans && ans.line}`)
        st('op:Lookup')
      } else if (op.op === 'FsMutate') {
        const l = plan.lookups[op.lf]; const s = lookupState[op.lf]
        if (l && l.variants[op.to]) { s.cur = op.to; s.served.add(op.to); applyVariant(l, l.variants[op.to]); st('fault:fs-mutate') }
        hist.push(['FsMutate', op.lf, String(op.to)])
        log.push(`#${seq} FsMutate lf=${op.lf} -> variant ${op.to}`)
      } else if (op.op === 'FsFault') {
        for (const f of op.faults) simfs.schedule(f)
        hist.push(['FsFault', 0, op.faults.map(f => f.kind).join()])
        log.push(`#${seq} FsFault ${JSON.stringify(op.faults)}`)
      } else if (op.op === 'RewriteBurst') {
        for (let i = 0; i < op.n; i++) {
          try { rewriters[0].rewrite(BURST_CODE, `/sim/burst/rw${i}.js`) } catch (e) { rep.notes.push('burst rewrite failed: ' + String(e && e.message).slice(0, 60)) }
        }
        st('probe:more-than-1000-files-rewritten')
        st('fault:rewrite-burst')
        hist.push(['RewriteBurst', 0, String(op.n)])
        log.push(`#${seq} RewriteBurst n=${op.n}`)
      } else if (op.op === 'Burst') {
        for (let i = 0; i < op.n; i++) {
          try { pkg.getOriginalPathAndLineFromSourceMap(`/sim/burst/${seq}/${i}.js`, 1, 1) } catch (e) { viol('N1', 'N1:lookup-threw', `burst lookup threw: ${e && e.message}`) }
        }
        if (op.n > 1000) st('probe:lru-eviction-burst')
        // a pending scheduled fault may have been consumed by the burst
        hist.push(['Burst', 0, op.n > 1000 ? 'evict' : 'small'])
        log.push(`#${seq} Burst n=${op.n}`)
        st('fault:lru-burst')
      }
    } catch (e) {
      rep.notes.push('harness exception: ' + String(e && e.stack).slice(0, 300))
      log.push(`#${seq} HARNESS EXCEPTION ${e && e.message}`)
    }
    seq++
  }
  for (const k of Object.keys(simfs.fired)) st('fault:' + k, simfs.fired[k])
  // restore the process-wide handler
  if (origPST) Object.defineProperty(Error, 'prepareStackTrace', origPST); else delete Error.prepareStackTrace
  Error.stackTraceLimit = origLimit
  if (typeof process.setSourceMapsEnabled === 'function' && process.sourceMapsEnabled) process.setSourceMapsEnabled(false)
  let h = 0
  for (const x of hist) h = mix(h, fnv32(x.join('|')))
  if (hist.length > 1) rep.shapes.push(h)
  rep.logDigest = fnv32(log.join('\n'))
  if (wantLog) rep.log = log
  return rep
}

function shrink (plan) {
  const out = []
  const n = plan.ops.length
  if (n > 3) {
    out.push(Object.assign({}, plan, { ops: plan.ops.slice(0, n >> 1) }))
    out.push(Object.assign({}, plan, { ops: plan.ops.slice(n >> 1) }))
  }
  for (let i = n - 1; i >= 0; i--) out.push(Object.assign({}, plan, { ops: plan.ops.filter((_, j) => j !== i) }))
  if (plan.lookups.length) {
    const used = plan.ops.some(o => ['Lookup', 'FsMutate'].includes(o.op))
    if (!used) out.push(Object.assign({}, plan, { lookups: [] }))
  }
  return out
}

function summarise (plan) {
  return {
    rewriters: plan.cfgs.map(c => ({ chain: c.chainSourceMap, comments: c.comments })),
    files: plan.files.map(f => ({ path: f.path, versions: f.versions.map(v => ({ kind: v.kind, lines: v.nLines, omap: v.omap ? v.omap.mode : null, sites: v.sites.map(s => `${s.kind}@${s.line || s.cbLine}`) })) })),
    lookups: plan.lookups.map(l => ({ path: l.path, variants: l.variants.map(v => v.kind) })),
    ops: plan.ops
  }
}

module.exports = {
  id: 'C11',
  level: 'exploration',
  chunk: 25,
  runs: (tier) => tier === 'thorough' ? 60000 : 2500,
  plan,
  jobs,
  execute,
  shrink,
  summarise,
  rule: 'a case is one seeded history (8-40 operations: Rewrite through CacheRewriter by one of <=2 rewriter instances / NonCacheRewrite / Load / Throw at a generator-known site via {string path, user handler, late handler, re-wrapped handler} / SetHandler / Lookup / FsMutate / FsFault / Burst>1000 / Pin (the external original map is replaced by one that sends a site to exactly its generated line and column in another file, learned from a first throw; the file is rewritten again, both flavours must report the other file; the map is put back) / Alias (the original text of a rewritten file loaded under the same name followed by a query or fragment: an unknown file, positions unchanged) / Keep (wrapped call sites kept by the handler and read after the file was rewritten again must read what they read at once)) over <=4 files x <=4 versions (modified, not-modified, syntax error; inline or external original map when chaining) and <=2 disk-only files; distinct = hash of the abstract history (operation kind, file index, relation {first, same, newer} x status, handler kind); non-trivial = at least two operations',
  components: {
    real: ['main.js (CacheRewriter, NonCacheRewriter)', 'js/source-map/index.js + node_source_map.js', 'js/stack-trace/index.js', 'lru-cache 7.18.3 (vendored copy of the real library)', 'V8 call sites / prepareStackTrace protocol / vm.compileFunction', 'Rust rewriter (rewrite_js, print_js, chaining) via simrw batch'],
    simulated: ['fs under js/source-map (existsSync/readFileSync with faults)'],
    stub: ['wasm-bindgen glue (adapter.js answers from the real Rust code)', 'WasmFileReader (SimFileReader serves the external original maps)']
  },
  assumptions: [
    'positions are compared at line granularity (path + line), as the property states',
    'on-disk map freshness is not promised by the package (LRU with negative caching): a lookup may answer from any version of the map served so far, never anything else',
    'frames of code that is older than the latest rewrite of its file carry no positional expectation (the package keys by file name)',
    'batching the rewriter is sound here because call-to-call state of the rewriter is C16\'s subject'
  ],
  expectedProbes: ['probe:frame-in-unmapped-region-of-chained-map', 'probe:frame-in-rewritten-file', 'probe:frame-through-chained-map', 'probe:file-rewritten-again', 'probe:throw-from-stale-code', 'probe:notmodified-after-modified', 'probe:rewrite-by-second-rewriter-instance', 'probe:eval-frame', 'probe:frame-in-never-rewritten-file', 'probe:lru-eviction-burst', 'probe:cross-file-stack', 'probe:string-path', 'probe:structured-path', 'probe:lookup-translated', 'probe:two-stacks-from-one-expression', 'probe:frame-in-second-source-of-bundle-map', 'probe:eval-made-function-called-from-outside', 'probe:more-than-1000-files-rewritten', 'probe:message-contains-own-frame-location', 'probe:generated-position-equals-original-position', 'probe:unknown-file-named-like-a-rewritten-one', 'probe:kept-call-sites-read-after-the-file-was-rewritten-again']
}
