'use strict'
// Stands where the wasm binding would: `new Rewriter(config)`, `rewrite(code, file)`,
// `csiMethods()`, `setLogger()`. Every answer comes from the real Rust rewriter (simrw batch).
function makeAdapter (table, opts) {
  opts = opts || {}
  class Rewriter {
    constructor (config) {
      this.config = config
      this.prngSeed = opts.prngSeed || 1
      this.fs = opts.fs || null
    }

    rewrite (code, file) {
      // `logger` / `logLevel` are the JS wrapper's own options: they are not part of what the binding deserialises
      let cfg = this.config === undefined ? null : this.config
      if (cfg && typeof cfg === 'object' && (cfg.logger !== undefined || cfg.logLevel !== undefined)) { cfg = Object.assign({}, cfg); delete cfg.logger; delete cfg.logLevel }
      const job = { cfg, prng_seed: this.prngSeed, file, code }
      if (opts.logLevel) job.log_level = opts.logLevel
      if (opts.fsFor) { const f = opts.fsFor(file, code); if (f) job.fs = f }
      const r = table.get(job)
      if (opts.onCall) opts.onCall(job, r)
      if (r.ok) return JSON.parse(JSON.stringify(r.ok)) // a fresh object per call, as the binding returns
      if (r.err !== undefined) throw new Error(r.err)
      throw new Error('rewriter panicked: ' + r.panic)
    }

    csiMethods () {
      const c = this.config && this.config.csiMethods
      return (c || []).map(m => m.dst || m.src)
    }

    setLogger () {}
  }
  return { Rewriter }
}
module.exports = { makeAdapter }
