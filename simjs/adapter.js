'use strict'
// Stands where the wasm binding would: `new Rewriter(config)`, `rewrite(code, file)`,
// `csiMethods()`, `setLogger()`. Every answer comes from the real Rust rewriter (simrw batch).
function makeAdapter (table, opts) {
  opts = opts || {}
  class Rewriter {
    constructor (config) {
      this.config = config
      this.prngSeed = opts.prngSeed || 1
      this.fs = opts.fs || null
    }

    rewrite (code, file) {
      const job = { cfg: this.config === undefined ? null : this.config, prng_seed: this.prngSeed, file, code }
      if (opts.logLevel) job.log_level = opts.logLevel
      if (opts.fsFor) { const f = opts.fsFor(file, code); if (f) job.fs = f }
      const r = table.get(job)
      if (opts.onCall) opts.onCall(job, r)
      if (r.ok) return JSON.parse(JSON.stringify(r.ok)) // a fresh object per call, as the binding returns
      if (r.err !== undefined) throw new Error(r.err)
      throw new Error('rewriter panicked: ' + r.panic)
    }

    csiMethods () {
      const c = this.config && this.config.csiMethods
      return (c || []).map(m => m.dst || m.src)
    }

    setLogger () {}
  }
  return { Rewriter }
}
module.exports = { makeAdapter }
