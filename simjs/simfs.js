'use strict'
// Simulated `fs` for js/source-map/index.js: existsSync / readFileSync over an in-memory tree,
// with scheduled faults. Every call is recorded.
function enoent (p) { const e = new Error(`ENOENT: no such file or directory, open '${p}'`); e.code = 'ENOENT'; return e }
function errOf (code, p) { const e = new Error(`${code}: simulated, open '${p}'`); e.code = code; return e }

class SimFs {
  constructor () {
    this.files = new Map() // path -> string | {dir:true} | {err:code}
    this.faults = [] // queue of {op:'existsSync'|'readFileSync', kind}
    this.calls = []
    this.fired = {}
  }

  set (p, content) { this.files.set(p, content) }
  delete (p) { this.files.delete(p) }
  schedule (f) { this.faults.push(f) }
  _fire (k) { this.fired[k] = (this.fired[k] || 0) + 1 }

  _nextFault (op) {
    if (this.faults.length && this.faults[0].op === op) return this.faults.shift()
    return null
  }

  get module () {
    const self = this
    return {
      existsSync (p) {
        self.calls.push(['existsSync', p])
        const f = self._nextFault('existsSync')
        if (f) {
          self._fire('fs:existsSync:' + f.kind)
          if (f.kind === 'false') return false
          if (f.kind === 'true') return true
          if (f.kind === 'throw') throw errOf('EACCES', p)
        }
        return self.files.has(p)
      },
      readFileSync (p) {
        self.calls.push(['readFileSync', p])
        const f = self._nextFault('readFileSync')
        if (f) {
          self._fire('fs:readFileSync:' + f.kind)
          if (f.kind === 'truncate') {
            const v = self.files.get(p)
            if (typeof v === 'string') return Buffer.from(v.slice(0, Math.floor(v.length / 2)))
          } else if (f.kind === 'garbage') return Buffer.from('\u0000\u0001 not a file {{{')
          else throw errOf(f.kind, p)
        }
        const v = self.files.get(p)
        if (v === undefined) { self._fire('fs:readFileSync:ENOENT-missing'); throw enoent(p) }
        if (typeof v !== 'string') {
          if (v.dir) { self._fire('fs:readFileSync:EISDIR'); throw errOf('EISDIR', p) }
          self._fire('fs:readFileSync:' + v.err); throw errOf(v.err, p)
        }
        return Buffer.from(v)
      }
    }
  }
}
module.exports = { SimFs }
