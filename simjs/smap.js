'use strict'
// Harness-own source-map v3 codec and lookup (independent of js/source-map/node_source_map.js).
const B64 = 'ABCDEFGHIJKLMNOPQRSTUVWXYZabcdefghijklmnopqrstuvwxyz0123456789+/'

function vlqEncode (v) {
  let x = v < 0 ? ((-v) << 1) | 1 : v << 1
  let out = ''
  do {
    let d = x & 31
    x >>>= 5
    if (x) d |= 32
    out += B64[d]
  } while (x)
  return out
}

function vlqDecodeSeg (seg) {
  const out = []
  let cur = 0; let shift = 0
  for (const ch of seg) {
    const v = B64.indexOf(ch)
    if (v < 0) throw new Error('bad vlq')
    cur += (v & 31) * Math.pow(2, shift)
    shift += 5
    if (!(v & 32)) {
      const neg = cur % 2 === 1
      const mag = Math.floor(cur / 2)
      out.push(neg ? -mag : mag)
      cur = 0; shift = 0
    }
  }
  return out
}

// toks: [{gl, gc, src, sl, sc, name}] (src/name indices or null)
function encodeMap (m) {
  const toks = m.toks.slice().sort((a, b) => a.gl - b.gl || a.gc - b.gc)
  let mappings = ''; let line = 0; let gc = 0; let src = 0; let sl = 0; let sc = 0; let name = 0; let first = true
  for (const t of toks) {
    while (line < t.gl) { mappings += ';'; line++; gc = 0; first = true }
    if (!first) mappings += ','
    first = false
    mappings += vlqEncode(t.gc - gc); gc = t.gc
    if (t.src != null) {
      mappings += vlqEncode(t.src - src); src = t.src
      mappings += vlqEncode(t.sl - sl); sl = t.sl
      mappings += vlqEncode(t.sc - sc); sc = t.sc
      if (t.name != null) { mappings += vlqEncode(t.name - name); name = t.name }
    }
  }
  const o = { version: 3 }
  if (m.file) o.file = m.file
  if (m.sourceRoot != null) o.sourceRoot = m.sourceRoot
  o.sources = m.sources
  o.names = m.names || []
  o.mappings = mappings
  return JSON.stringify(o)
}

function decodeMap (json) {
  const o = typeof json === 'string' ? JSON.parse(json) : json
  const m = { sources: o.sources || [], names: o.names || [], sourceRoot: o.sourceRoot, toks: [] }
  let src = 0; let sl = 0; let sc = 0; let name = 0
  const lines = (o.mappings || '').split(';')
  lines.forEach((line, gl) => {
    let gc = 0
    for (const seg of line.split(',')) {
      if (!seg) continue
      const f = vlqDecodeSeg(seg)
      gc += f[0]
      const t = { gl, gc, src: null, sl: 0, sc: 0, name: null }
      if (f.length >= 4) {
        src += f[1]; sl += f[2]; sc += f[3]
        t.src = src; t.sl = sl; t.sc = sc
        if (f.length >= 5) { name += f[4]; t.name = name }
      }
      m.toks.push(t)
    }
  })
  m.toks.sort((a, b) => a.gl - b.gl || a.gc - b.gc)
  return m
}

// all tokens that are a greatest lower bound for (line, col) (0-based): the set of equals
function glbAll (m, line, col) {
  let best = null
  for (const t of m.toks) {
    if (t.gl < line || (t.gl === line && t.gc <= col)) best = t
    else break
  }
  if (!best) return []
  return m.toks.filter(t => t.gl === best.gl && t.gc === best.gc)
}

function splitTrailer (content) {
  const P = '\n//# sourceMappingURL=data:application/json;base64,'
  const i = content.lastIndexOf(P)
  if (i < 0) return null
  const b64 = content.slice(i + P.length).trim()
  if (b64.includes('\n')) return null
  return { code: content.slice(0, i), map: Buffer.from(b64, 'base64').toString('utf8') }
}

module.exports = { vlqEncode, encodeMap, decodeMap, glbAll, splitTrailer }
