'use strict'
// Generator of module versions with numbered throw sites at generator-known original lines.
const path = require('path')
const { encodeMap } = require('./smap')

const SITE_KINDS = ['body', 'operand', 'multiline', 'double', 'arrow', 'method', 'eval', 'evalfn', 'msg-loc', 'builtin-callback', 'far-column', 'recursive', 'callback', 'msg-newline', 'throw', 'helper', 'msg-at']

// returns {text, sites:[{k, kind, fn, line, cbLine?}], kind, omap?}
function genVersion (rng, fi, vi, kind, o) {
  const lines = []
  const sites = []
  const add = (l) => { lines.push(l); return lines.length } // returns 1-based line number
  const plain = kind === 'plain'
  // line 1 of the file is reserved for a site of its own in some versions (filled in below)
  if (o.firstLine) add('')
  const nHeader = rng.range(0, 10)
  for (let i = 0; i < nHeader; i++) add(rng.chance(2, 3) ? `// header comment ${i} of f${fi} v${vi}: helper code that a transpiler put in front of the module` : '')
  if (rng.chance(1, 3)) add("'use strict'")
  add('function keep (a, b) { return b }')
  const mkErrLine = add('function mkErr (m) { return new Error(m) }')
  add('function keep2 (a, b) { return [a, b] }')
  if (o.lookalikeLine) {
    // a multi-line template literal whose text has a line that looks like a reference comment
    add('const bannerTemplate = `')
    add('//# sourceMappingURL=not-a-real-reference.js.map')
    add('`')
  }
  const nSites = rng.range(2, 6)
  let kinds = []
  for (let i = 0; i < nSites; i++) {
    // the F6 scenario (message with a line that starts with `at`) only in a minority of versions
    const pool = SITE_KINDS.filter(k => k !== 'msg-at')
    kinds.push(rng.pick(pool))
  }
  if (o.allowMsgAt && rng.chance(1, 2)) kinds[rng.below(kinds.length)] = 'msg-at'
  kinds = rng.shuffle(kinds)
  const exportsList = []
  kinds.forEach((sk, k) => {
    const N = `f${fi}v${vi}s${k}`
    for (let i = rng.below(3); i > 0; i--) add(rng.chance(1, 2) ? '' : `// pad ${k}`)
    const op = (a, b) => plain ? a : `${a} + ${b}`
    const site = { k, kind: sk, fn: N, line: 0 }
    switch (sk) {
      case 'body':
      case 'msg-newline':
      case 'msg-at':
      case 'throw': {
        add(`function ${N} (x) {`)
        if (!plain) add("  const s = x + 'a'")
        else add('  const s = x')
        const msg = sk === 'msg-newline' ? "'first line\\nsecond line\\n  third'" : sk === 'msg-at' ? "'boom\\n    at fake (/nowhere/y.js:1:1)'" : (plain ? "'site'" : "'site ' + s")
        if (sk === 'throw') {
          site.line = add(`  throw new Error(${msg})`)
        } else {
          site.line = add(`  const e = new Error(${msg})`)
          add('  return e')
        }
        add('}')
        break
      }
      case 'recursive': {
        // one statement over three original lines, printed on one generated line: the frames of the recursion
        // share the generated line but not the original one
        add(`function ${N} (x, n) {`)
        add('  return (n || 0) < 2 ? keep(1,')
        site.cbLine = add(`    ${N}(x, (n || 0) + 1))`)
        site.line = add(plain ? "    : new Error('rec')" : "    : new Error(x + 'rec')")
        add('}')
        break
      }
      case 'far-column': {
        // a long literal earlier in the same statement puts the call site beyond column 65536
        add(`function ${N} (x) {`)
        const long = 'L'.repeat(rng.pick([65500, 65536, 70000]))
        site.line = add(plain ? `  return keep('${long}', new Error('far'))` : `  return keep('${long}', new Error(x + 'far'))`)
        add('}')
        break
      }
      case 'helper': {
        // the Error is created by a helper defined at the top of the file (possibly in a region the
        // original map does not cover); the site frame is the second frame
        add(`function ${N}c (x) {`)
        site.cbLine = add(plain ? "  return mkErr('helper')" : "  return mkErr(x + 'h')")
        add('}')
        site.entry = `${N}c`
        site.line = 0
        break
      }
      case 'builtin-callback': {
        // the Error is created in a callback run by a JS builtin: a frame without a file name sits between
        add(`function ${N}c (x) {`)
        if ((fi + vi + k) % 2 === 1) {
          // round s: ... or by node's module loader - the module requires something whose loading runs the
          // callback (a dependency that throws while it is being loaded): frames of node:internal/modules sit between
          add(`  globalThis.__simLoadCb = ${N}; globalThis.__simLoadArg = x`)
          site.cbLine = add("  return require('sim:call-during-load')")
          site.viaLoader = true
        } else site.cbLine = add(`  return [x].map(${N})[0]`)
        add('}')
        add(`function ${N} (y) {`)
        site.line = add(plain ? "  return new Error('in map')" : "  return new Error(y + 'm')")
        add('}')
        site.entry = `${N}c`
        break
      }
      case 'msg-loc': {
        // the message is supplied by the caller (it will embed this very frame's raw location)
        add(`function ${N} (x, cb, msg) {`)
        add(plain ? '  const s = x' : "  const s = x + 'l'")
        site.line = add("  const e = new Error(msg || 'first call')")
        add('  return e')
        add('}')
        break
      }
      case 'operand': {
        add(`function ${N} (x) {`)
        add('  let e')
        if (plain) site.line = add('  const t = [x, String(e = new Error(\'operand\'))]')
        else site.line = add("  const t = x + String(e = new Error('operand'))")
        add('  return e')
        add('}')
        break
      }
      case 'multiline': {
        add(`function ${N} (x) {`)
        add('  const r = keep(')
        add(plain ? '    x,' : "    x + 'm',")
        site.line = add(plain ? "    new Error('tpl')" : '    new Error(`tpl ${x}`)')
        add('  )')
        add('  return r')
        add('}')
        break
      }
      case 'double': {
        // two errors created in one multi-line expression (the printer may put it on one generated line):
        // their stacks are read one after the other, left to right
        add(`function ${N} (x) {`)
        add('  const pair = keep2(')
        site.line = add(plain ? "    new Error('first')," : "    new Error(x + 'first'),")
        site.line2 = add(plain ? "    new Error('second')" : "    new Error(x + 'second')")
        add('  )')
        add('  return pair')
        add('}')
        break
      }
      case 'arrow': {
        site.line = add(plain ? `const ${N} = (x) => new Error('arrow')` : `const ${N} = (x) => new Error(x + '!')`)
        break
      }
      case 'method': {
        add(`class K${N} {`)
        add(`  ${N} (x) {`)
        site.line = add(plain ? "    return new Error('method')" : "    return new Error(x + '?')")
        add('  }')
        add('}')
        add(`function ${N}c (x) {`)
        site.cbLine = add(`  return new K${N}().${N}(x)`)
        add('}')
        site.entry = `${N}c`
        break
      }
      case 'eval': {
        add(`function ${N} (x) {`)
        add(plain ? '  const r = x' : "  const r = x + 'e'")
        site.line = add("  return eval('new Error(\"in eval\")')")
        add('}')
        break
      }
      case 'evalfn': {
        // a function made by eval inside this file, called later by code that is not rewritten: its
        // stack has an eval frame whose origin is here, and no ordinary frame of this file
        add(`function ${N} (x) {`)
        add(plain ? '  const r = x' : "  const r = x + 'f'")
        site.line = add("  return eval('(function evalMade () { return new Error(\"late\") })')")
        add('}')
        break
      }
      case 'callback': {
        // the Error is created by a site function of (possibly) another file, passed in by the driver
        add(`function ${N}c (x, cb) {`)
        add(plain ? '  const s = x' : "  const s = x + 'c'")
        site.cbLine = add('  return cb(s)')
        add('}')
        site.entry = `${N}c`
        site.line = 0
        break
      }
    }
    sites.push(site)
    exportsList.push(site.entry || N)
    if (sk === 'method') exportsList.push(N + 'c')
  })
  if (o.bulk) {
    // a big module (rewritten content well over 512 KiB): size-dependent paths in the package
    for (let i = 0; i < 9000; i++) add(`var filler${i} = 'filler text that makes this module big ${String(i).padStart(6, '0')}'`)
  }
  if (o.firstLine) {
    const k = sites.length
    const N = `f${fi}v${vi}s${k}`
    lines[0] = plain ? `function ${N} (x) { return new Error('first line') }` : `function ${N} (x) { return new Error(x + 'first line') }`
    sites.push({ k, kind: 'first-line', fn: N, line: 1 })
    exportsList.push(N)
  }
  add('')
  add(`module.exports = { ${[...new Set(exportsList)].join(', ')} }`)
  const v = { kind, sites, text: '', fi, vi }
  if (kind === 'syntaxerr') {
    // at top level, after everything else (never inside a template literal): the file does not parse
    rng.range(1, lines.length - 1)
    lines.splice(lines.length - 2, 0, 'function broken ( { return 1 +; }')
    for (const s of sites) { s.line = 0; s.cbLine = 0; s.line2 = 0 }
  }
  // original map O (the file is "transpiler output"): line L -> original line g(L), any column
  if (o.omap && kind !== 'syntaxerr') {
    const nLines = lines.length + 2
    const mult = rng.range(2, 3); const off = rng.range(3, 40)
    const toks = []
    // a leading region without mappings (helper code a transpiler prepended) in some maps
    const gap = rng.chance(1, 3) ? rng.range(1, Math.max(1, mkErrLine + 1)) : 0
    // a bundle of two modules: from line `split` on, positions belong to a second source whose first
    // mapped line number equals the last mapped line number of the first (line-granular maps do that)
    const split = rng.chance(1, 3) ? rng.range(Math.max(gap + 1, 2), Math.max(gap + 2, nLines - 2)) : 0
    const lineOf = (L) => split && L >= split ? (L - split) * mult + ((split - 1) * mult + off) : L * mult + off
    for (let L = gap; L < nLines; L++) toks.push({ gl: L, gc: 0, src: split && L >= split ? 1 : 0, sl: lineOf(L), sc: 0, name: null })
    // a region in the middle that the transpiler generated itself: segments without a source (babel / esbuild
    // helpers); positions there have no original location
    let hole = null
    if (rng.chance(1, 4) && nLines - gap > 8) {
      const h1 = rng.range(gap + 1, nLines - 4); const h2 = Math.min(nLines - 1, h1 + rng.range(2, 8))
      for (const t of toks) if (t.gl >= h1 && t.gl < h2) { t.src = null }
      hole = [h1, h2]
    }
    // relative to the file's folder, or absolute (bundlers emit both)
    let source = rng.pick(['../ts/orig.ts', `src/f${fi}.ts`, `f${fi}v${vi}.ts`, `/abs/src/f${fi}.ts`])
    const source2 = `src/second_f${fi}.ts`
    let sourceRoot = rng.pick([undefined, '', 'root', 'root/'])
    // a file transpiled in place or in memory (ts-node, tsx, an in-place build): its original map names the file
    // itself as the only source, so the map the rewriter produces has the very same `sources` (no draw: decided
    // by numbers the generator has drawn anyway)
    if (!split && (off + mult + fi * 7 + vi * 3) % 5 === 0) { source = path.basename(o.file); if (sourceRoot) sourceRoot = '' }
    // real maps repeat entries of `sources` (a bundle input listed twice): the tokens then use the later index
    if (rng.chance(1, 4)) {
      const shift = split ? 1 : 2
      for (const t of toks) if (t.src != null && (!split || t.src === 1)) t.src += shift
      var srcList = split ? [source, source, source2] : ['unused.ts', 'unused.ts', source]
    }
    const m = { file: path.basename(o.file), sources: srcList || (split ? [source, source2] : [source]), names: [], toks }
    if (sourceRoot !== undefined) m.sourceRoot = sourceRoot
    const json = encodeMap(m)
    // a sourceRoot is not put in front of an absolute source
    const root = (x) => sourceRoot && !x.startsWith('/') ? sourceRoot.replace(/\/$/, '') + '/' + x : x
    const rooted = root(source)
    v.omap = { json, mult, off, source: rooted, source2: root(source2), split, mode: o.omap, gap, hole }
    if (o.omap === 'inline') {
      lines.push('//# sourceMappingURL=data:application/json;base64,' + Buffer.from(json).toString('base64'))
    } else {
      // one map name per file: every version (re-build) of the file overwrites the same .map
      // `#` and `?` are ordinary characters of file names
      v.omap.url = [`f${fi}.js.map`, `f${fi}.js.map`, `issue#${fi}.js.map`, `f${fi}.js.map?v=${fi}`][fi % 4 === 3 ? 2 : (fi % 4 === 2 ? 3 : 0)]
      v.omap.mapPath = path.join(path.dirname(o.file), v.omap.url)
      if (o.staleInline) {
        // an earlier build step left its inlined map behind, as a trailing comment of some statement;
        // the reference that counts is the last one
        const stale = encodeMap({ file: path.basename(o.file), sources: ['../legacy/stale.ts'], names: [], toks: toks.map(t => ({ ...t, src: 0, sl: t.sl + 1000 })) })
        const at = lines.findIndex(l => l.startsWith('function keep2'))
        if (at >= 0) lines[at] = lines[at] + ' //# sourceMappingURL=data:application/json;base64,' + Buffer.from(stale).toString('base64')
      }
      lines.push('//# sourceMappingURL=' + v.omap.url)
    }
  }
  v.text = lines.join('\n') + '\n'
  v.nLines = lines.length
  return v
}

module.exports = { genVersion, SITE_KINDS }
