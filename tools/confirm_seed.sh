#!/bin/bash
# tools/confirm_seed.sh <seed-dir> [patch-file-name]
# Confirms in a scratch worktree (outside /repo and /verif) that a seeded change (1) applies, (2) compiles and
# passes the 98 existing tests, (3) its demonstration fails with the change and passes without it.
# Writes <seed-dir>/confirm.log; prints CONFIRMED or NOT-CONFIRMED. Rust demos: demo_test.rs; JS demos: demo.js.
set -u
SD="$(cd "$1" && pwd)"; PF="${2:-patch.diff}"
WT="${CONFIRM_WT:-/tmp/confirm-wt}"
export CARGO_NET_OFFLINE=true
export PATH="/root/.nvm/versions/node/v20.20.2/bin:$PATH"
LOG="$SD/confirm.log"; : > "$LOG"
if [ ! -d "$WT" ]; then git -C /repo worktree add -q --detach "$WT" HEAD || exit 2; fi
cd "$WT" && git reset -q --hard && git clean -fdq -e target && git checkout -q --detach "$(git -C /repo rev-parse HEAD)" || exit 2
ok=1
say() { echo "$@" | tee -a "$LOG"; }
git apply "$SD/$PF" || { say "patch does not apply to $(git rev-parse --short HEAD)"; echo NOT-CONFIRMED; exit 1; }
say "== with patch: cargo test (existing suite)"
cargo test --workspace --no-fail-fast --offline 2>&1 | grep -E "^test result|error(\[|:)" | tee -a "$LOG"
grep -q "test result: ok. 98 passed" "$LOG" || { say "existing suite does not pass with the patch"; ok=0; }
run_demo() {
  if [ -f "$SD/demo_test.rs" ]; then
    cp "$SD/demo_test.rs" src/tests/demo_test.rs
    grep -q "mod demo_test;" src/tests/mod.rs || sed -i 's/^mod arrow_func_tests;/mod arrow_func_tests;\nmod demo_test;/' src/tests/mod.rs
    timeout 600 cargo test --offline demo_ -- --test-threads=1 2>&1 | grep -E "^test result|^test .*(ok|FAILED)|error(\[|:)" | tee -a "$LOG" | grep -q "test result: ok"
    rc=$?
    rm -f src/tests/demo_test.rs; git checkout -q -- src/tests/mod.rs
    return $rc
  elif [ -f "$SD/demo.js" ]; then
    timeout 120 node "$SD/demo.js" "$WT" >>"$LOG" 2>&1
    return $?
  else
    say "no demonstration found"; return 2
  fi
}
say "== with patch: demonstration (must FAIL)"
if run_demo; then say "demonstration PASSED with the patch (expected failure)"; ok=0; else say "demonstration failed with the patch, as expected"; fi
git reset -q --hard; git clean -fdq -e target
say "== without patch: demonstration (must PASS)"
if run_demo; then say "demonstration passes without the patch"; else say "demonstration FAILED without the patch"; ok=0; fi
git reset -q --hard; git clean -fdq -e target
if [ $ok = 1 ]; then say CONFIRMED; exit 0; else say NOT-CONFIRMED; exit 1; fi
