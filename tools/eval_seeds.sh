#!/bin/bash
# tools/eval_seeds.sh [tier] [ids...] — run each kept seeded change against the check of its property; writes seeded/<id>/detect.json
TIER="${1:-quick}"; shift
IDS="$@"; [ -z "$IDS" ] && IDS=$(ls /verif/seeded)
for id in $IDS; do
  d=/verif/seeded/$id; prop=$(python3 -c "import json;print(json.load(open('$d/meta.json'))['breaks_property'])")
  [ -f /verif/simjs/c06.js ] || [ "$prop" != C06 ] || { echo "$id: C06 check not built yet"; continue; }
  t0=$(date +%s)
  out=$(/verif/tools/try_patch.sh $d/patch.diff $prop $TIER 2>&1); rc=$(echo "$out" | grep -o 'exit=[0-9]*' | tail -1 | cut -d= -f2)
  t1=$(date +%s)
  keys=$(echo "$out" | grep '^VIOLATION' | sed -E 's/.*key=([^ ]+).*/\1/' | sort -u | tr '\n' ' ')
  echo "$id prop=$prop tier=$TIER exit=$rc keys=[$keys] wall=$((t1-t0))s"
  python3 - "$d" "$prop" "$TIER" "$rc" "$keys" "$((t1-t0))" <<'PY'
import json,sys
d,prop,tier,rc,keys,wall=sys.argv[1:7]
json.dump({"check":f"./check {prop} {tier}","exit":int(rc or -1),"detected":rc=="1","violation_keys":keys.split(),"wall_s":int(wall)},open(f"{d}/detect.json","w"),indent=1)
PY
done
