#!/bin/bash
# tools/eval_seeds_par.sh [lanes] [ids...] — like eval_seeds.sh (quick tier), but in parallel lanes.
# Each lane has its own scratch copy of /repo (git worktree) and of /verif (build output included) under
# /tmp/evlane-<k>; /repo and /verif themselves are not touched except for seeded/<id>/detect.json.
# The lanes are removed at the end.
LANES="${1:-4}"; shift
IDS="$@"; [ -z "$IDS" ] && IDS=$(ls /verif/seeded)
export CARGO_NET_OFFLINE=true
export PATH="/root/.nvm/versions/node/v20.20.2/bin:$PATH"
HEAD=$(git -C /repo rev-parse HEAD)
lane() {
  k=$1; shift
  L=/tmp/evlane-$k
  rm -rf "$L"; mkdir -p "$L"
  git -C /repo worktree add -q --detach "$L/repo" "$HEAD" || return 2
  rsync -a --exclude replays --exclude .git /verif/ "$L/verif/"
  sed -i "s#/repo/src/lib.rs#$L/repo/src/lib.rs#" "$L/verif/simrw/shadow/Cargo.toml"
  ln -sf "$L/repo/tracer_logger.js" "$L/verif/simrw/shadow/tracer_logger.js"
  for id in "$@"; do
    d=/verif/seeded/$id
    prop=$(python3 -c "import json;print(json.load(open('$d/meta.json'))['breaks_property'])")
    t0=$(date +%s)
    ( cd "$L/repo" && git reset -q --hard && git clean -fdq -- src js main.js && { git apply "$d/patch.diff" 2>/dev/null || git apply --3way "$d/patch.diff"; } ) || { echo "$id: patch does not apply"; continue; }
    out=$(cd "$L/verif" && VERIF_REPO="$L/repo" VERIF_WORKERS=4 ./check "$prop" quick 2>&1); rc=$?
    t1=$(date +%s)
    keys=$(echo "$out" | grep '^VIOLATION' | sed -E 's/.*key=([^ ]+).*/\1/' | sort -u | tr '\n' ' ')
    echo "$id prop=$prop tier=quick exit=$rc keys=[$keys] wall=$((t1-t0))s"
    python3 - "$d" "$prop" quick "$rc" "$keys" "$((t1-t0))" <<'PY'
import json,sys
d,prop,tier,rc,keys,wall=sys.argv[1:7]
json.dump({"check":f"./check {prop} {tier}","exit":int(rc or -1),"detected":rc=="1","violation_keys":keys.split(),"wall_s":int(wall)},open(f"{d}/detect.json","w"),indent=1)
PY
  done
  git -C /repo worktree remove --force "$L/repo" 2>/dev/null
  rm -rf "$L"
}
i=0; declare -a BUCKET
for id in $IDS; do BUCKET[$((i % LANES))]+=" $id"; i=$((i+1)); done
for k in $(seq 0 $((LANES-1))); do lane $k ${BUCKET[$k]} & done
wait
git -C /repo worktree prune
