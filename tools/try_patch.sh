#!/bin/bash
# tools/try_patch.sh <patch.diff> <property> [quick|thorough] [extra env]  — apply a change to /repo, run the check, undo it.
set -u
P="$1"; PROP="$2"; TIER="${3:-quick}"
cd /repo || exit 2
if ! git diff --quiet; then echo "/repo has uncommitted changes" >&2; exit 2; fi
git apply "$P" 2>/dev/null || git apply --3way "$P" || { echo "patch does not apply" >&2; exit 2; }
trap 'git -C /repo reset -q --hard HEAD ; git -C /repo clean -fdq -- src js main.js' EXIT
cd /verif
mkdir -p /tmp/try_patch_ev && cp -f evidence/$PROP.json /tmp/try_patch_ev/ 2>/dev/null
./check "$PROP" "$TIER"; rc=$?
# restore the evidence of the unchanged tree (a mutant run is not evidence)
cp -f /tmp/try_patch_ev/$PROP.json evidence/$PROP.json 2>/dev/null
echo "exit=$rc"
exit $rc
