'use strict'
// Harvests the JS inputs (and expected outputs) the repository's own spec files feed to the rewriter,
// by running the spec files under a recording stand-in for mocha and for test/util.js. The result is
// vendored as /verif/corpus/snippets.json (a static snapshot: checks never read /repo/test at run time).
//   node tools/harvest_corpus.js /repo > corpus/snippets.json
const Module = require('module')
const path = require('path')
const fs = require('fs')
const repo = process.argv[2] || '/repo'
const seen = new Set()
const out = []
function rec (x, origin) {
  if (typeof x !== 'string' || x.length === 0 || x.length > 20000) return
  if (seen.has(x)) return
  seen.add(x)
  out.push({ origin, text: x })
}
let current = ''
const recorder = new Proxy(function () {}, {
  get (t, k) {
    if (k === 'wrapBlock') return (s) => `{\n${s}\n}`
    if (k === 'csiMethods') return []
    if (k === 'then') return undefined
    return function (...args) {
      for (const a of args) rec(a, current)
      return recorder
    }
  },
  apply () { return recorder }
})
const origLoad = Module._load
Module._load = function (request, parent, isMain) {
  if (request === './util' || request === '../main' || request === 'mocha-it-each' || request === 'chai' ||
      request === 'sinon' || request === 'proxyquire' || request.startsWith('../js/') || request.startsWith('../')) {
    if (request === 'mocha-it-each') {
      return { itEach: (name, values, fn) => { for (const v of values) { try { fn(v) } catch (e) {} } } }
    }
    if (request === 'chai') return { expect: () => recorder, assert: recorder }
    return recorder
  }
  return origLoad.apply(this, arguments)
}
global.describe = (n, f) => { try { f() } catch (e) {} }
global.describe.skip = () => {}
global.describe.only = global.describe
global.it = (n, f) => { try { const r = f(() => {}); if (r && r.catch) r.catch(() => {}) } catch (e) {} }
global.it.skip = () => {}
global.it.only = global.it
global.before = global.beforeEach = global.after = global.afterEach = () => {}
global.expect = () => recorder
for (const f of fs.readdirSync(path.join(repo, 'test')).sort()) {
  if (!f.endsWith('.spec.js')) continue
  current = 'test/' + f
  try { require(path.join(repo, 'test', f)) } catch (e) { process.stderr.write(`${f}: ${e.message}\n`) }
}
// Rust unit tests: string literals assigned to original_code / js
for (const f of fs.readdirSync(path.join(repo, 'src/tests')).sort()) {
  if (!f.endsWith('.rs')) continue
  const s = fs.readFileSync(path.join(repo, 'src/tests', f), 'utf8')
  const re = /let\s+(?:original_code|js|code)\s*(?::\s*[^=]+)?=\s*(?:r#"([\s\S]*?)"#|"((?:[^"\\]|\\[\s\S])*)")/g
  let m
  while ((m = re.exec(s))) {
    let t = m[1] !== undefined ? m[1] : m[2].replace(/\\\n\s*/g, '').replace(/\\n/g, '\n').replace(/\\"/g, '"').replace(/\\\\/g, '\\')
    rec(t, 'src/tests/' + f)
  }
}
for (const f of ['test/resources/issue-101.js', 'test/resources/tmpl-literal.js']) {
  try { rec(fs.readFileSync(path.join(repo, f), 'utf8'), f) } catch (e) {}
}
process.stdout.write(JSON.stringify(out, null, 0) + '\n')
process.stderr.write(`${out.length} snippets\n`)
