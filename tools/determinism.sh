#!/bin/bash
# Determinism proof: per-run event-log digests must be identical across repeated executions, worker counts,
# and (Node engine) another V8 hash seed. Usage: tools/determinism.sh [runs]   (exit 0 = all identical)
cd /verif; export PATH="/root/.nvm/versions/node/v20.20.2/bin:$PATH"
RUNS="${1:-256}"; OUT=/tmp/determinism.$$; mkdir -p $OUT; rc=0
( cd simrw && cargo build --release --offline >/dev/null 2>&1 ) || { echo "build failed"; exit 2; }
mkdir -p /tmp/det_ev && cp -f evidence/*.json /tmp/det_ev/ 2>/dev/null
for seed in 1 2 77; do
  for p in C16 C13 C10; do
    VERIF_SEED=$seed VERIF_DIGESTS=1 ./simrw/target/release/simrw check $p quick --runs $RUNS --workers 16 | grep -E "^DIGEST|^VIOLATION" > $OUT/$p.$seed.a
    VERIF_SEED=$seed VERIF_DIGESTS=1 ./simrw/target/release/simrw check $p quick --runs $RUNS --workers 3  | grep -E "^DIGEST|^VIOLATION" > $OUT/$p.$seed.b
    if cmp -s $OUT/$p.$seed.a $OUT/$p.$seed.b; then echo "$p seed=$seed runs=$(grep -c DIGEST $OUT/$p.$seed.a): identical (16 vs 3 workers)"; else echo "$p seed=$seed: DIFFERENT"; rc=1; fi
  done
  for p in C11 C06; do
    VERIF_SEED=$seed VERIF_DIGESTS=1 node simjs/main.js check $p quick --runs $RUNS --workers 16 | grep -E "^DIGEST|^VIOLATION" > $OUT/$p.$seed.a
    VERIF_SEED=$seed VERIF_DIGESTS=1 VERIF_NODE_ARGS=--hash-seed=424242 node --hash-seed=424242 simjs/main.js check $p quick --runs $RUNS --workers 3 | grep -E "^DIGEST|^VIOLATION" > $OUT/$p.$seed.b
    if cmp -s $OUT/$p.$seed.a $OUT/$p.$seed.b; then echo "$p seed=$seed runs=$(grep -c DIGEST $OUT/$p.$seed.a): identical (16 workers vs 3 workers + other V8 hash seed)"; else echo "$p seed=$seed: DIFFERENT"; diff $OUT/$p.$seed.a $OUT/$p.$seed.b | head -5; rc=1; fi
  done
  # C06 once more with the appended static runs (H6, run index >= 3000) included
  VERIF_SEED=$seed VERIF_DIGESTS=1 node simjs/main.js check C06 quick --runs 3256 --workers 16 | grep -E "^DIGEST|^VIOLATION" > $OUT/C06h.$seed.a
  VERIF_SEED=$seed VERIF_DIGESTS=1 VERIF_NODE_ARGS=--hash-seed=424242 node --hash-seed=424242 simjs/main.js check C06 quick --runs 3256 --workers 3 | grep -E "^DIGEST|^VIOLATION" > $OUT/C06h.$seed.b
  if cmp -s $OUT/C06h.$seed.a $OUT/C06h.$seed.b; then echo "C06 (with H6 runs) seed=$seed runs=$(grep -c DIGEST $OUT/C06h.$seed.a): identical (16 workers vs 3 workers + other V8 hash seed)"; else echo "C06 (with H6 runs) seed=$seed: DIFFERENT"; diff $OUT/C06h.$seed.a $OUT/C06h.$seed.b | head -5; rc=1; fi
done
# seeds must matter
if cmp -s $OUT/C16.1.a $OUT/C16.2.a; then echo "C16: seeds 1 and 2 give the same digests (seed ignored?)"; rc=1; fi
cp -f /tmp/det_ev/*.json evidence/ 2>/dev/null
rm -rf $OUT
exit $rc
