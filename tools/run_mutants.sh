#!/bin/bash
# tools/run_mutants.sh [prop...] — for every own sensitivity mutant: does it still compile and pass the 98 tests
# (scratch worktree outside /repo and /verif), and does the quick check of its property report it?
export CARGO_NET_OFFLINE=true
WT=/tmp/confirm-wt
PROPS="$@"; [ -z "$PROPS" ] && PROPS="C16 C13 C10 C11 C06"
[ -d $WT ] || git -C /repo worktree add -q --detach $WT HEAD
for prop in $PROPS; do
  for d in /verif/mutants/$prop/*.diff; do
    name=$(basename $d .diff)
    tests="n/a (JS only)"
    if grep -q '^+++ b/src/' $d; then
      ( cd $WT && git reset -q --hard && git checkout -q --detach $(git -C /repo rev-parse HEAD) && git apply $d ) || { echo "$prop/$name: does not apply"; continue; }
      tests=$(cd $WT && cargo test --workspace --no-fail-fast --offline 2>&1 | grep -E "^test result|^error" | head -1)
      ( cd $WT && git reset -q --hard )
    fi
    t0=$(date +%s)
    out=$(/verif/tools/try_patch.sh $d $prop quick 2>&1); rc=$(echo "$out" | grep -o 'exit=[0-9]*' | tail -1 | cut -d= -f2)
    t1=$(date +%s)
    keys=$(echo "$out" | grep '^VIOLATION' | sed -E 's/.*key=([^ ]+).*/\1/' | sort -u | tr '\n' ' ')
    echo "$prop/$name | tests: $tests | check exit=$rc | keys: $keys| ${t1}-${t0}=$((t1-t0))s"
  done
done
