#!/usr/bin/env python3
"""tools/keep_seed.py <seedout-dir> [--round TEXT] [--missed TEXT] [--patch FILE]
Copy a confirmed seeded change into /verif/seeded/<id>/ (patch.diff, demonstration, confirm.log, meta.json)."""
import json, os, shutil, sys

args = sys.argv[1:]
src = args[0].rstrip('/')
sid = os.path.basename(src)
opt = {'--round': 'independent sub-agent given only the property text and its own scratch worktree (nothing from /verif)', '--missed': None, '--patch': 'patch.diff'}
i = 1
while i + 1 < len(args) + 1 and i < len(args):
    opt[args[i]] = args[i + 1]
    i += 2
dst = f'/verif/seeded/{sid}'
os.makedirs(dst, exist_ok=True)
shutil.copy(f'{src}/{opt["--patch"]}', f'{dst}/patch.diff')
if opt['--patch'] != 'patch.diff':
    shutil.copy(f'{src}/patch.diff', f'{dst}/patch.orig.diff')
for d in ('demo_test.rs', 'demo.js', 'confirm.log'):
    if os.path.exists(f'{src}/{d}'):
        shutil.copy(f'{src}/{d}', f'{dst}/{d}')
if not os.path.exists(f'{dst}/confirm.log') or 'CONFIRMED' not in open(f'{dst}/confirm.log').read() or 'NOT-CONFIRMED' in open(f'{dst}/confirm.log').read():
    print(f'{sid}: not confirmed - not kept'); shutil.rmtree(dst); sys.exit(1)
meta = json.load(open(f'{src}/meta.json'))
meta['id'] = sid
meta['origin'] = opt['--round']
meta['breaks_property'] = meta.get('property', sid.split('-')[0])
meta['patch_note'] = 'patch.diff applies to /repo HEAD as delivered' if opt['--patch'] == 'patch.diff' else "patch.diff is the sub-agent's change rebased by hand onto later fix: commits (semantics unchanged); the original is patch.orig.diff"
meta['confirmed_by_me'] = {'how': 'tools/confirm_seed.sh in a scratch worktree /tmp/confirm-wt (outside /repo and /verif): git apply; cargo test --workspace --no-fail-fast --offline => 98 passed; demonstration FAILS with the patch; git reset; demonstration PASSES without it', 'result': 'CONFIRMED', 'log': 'confirm.log'}
if opt['--missed']:
    meta['initially_missed'] = opt['--missed']
json.dump(meta, open(f'{dst}/meta.json', 'w'), indent=1)
print(f'{sid}: kept')
