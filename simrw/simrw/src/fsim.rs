//! Simulated file system + fault-injecting reader behind the repo's `FileReader<R: Read>` seam.
//! Every open and every `Read::read` call is decided by an explicit, serialisable `FaultPlan`.

use native_iast_rewriter::verif_hooks::FileReader;
use serde::{Deserialize, Serialize};
use std::cell::RefCell;
use std::collections::BTreeMap;
use std::io::{self, ErrorKind, Read};
use std::path::{Path, PathBuf};
use std::rc::Rc;

#[derive(Serialize, Deserialize, Clone, Debug, PartialEq)]
#[serde(tag = "t", content = "v")]
pub enum FsNode {
    /// regular file with literal text content
    Text(String),
    /// regular file whose content is base64 (arbitrary bytes)
    B64(String),
    /// synthesised big file: a valid-looking v3 map with `n` mapping segments
    HugeMap(usize),
    /// synthesised big file: a small valid v3 map whose `sourcesContent` entry makes the body `n` bytes long
    BigBody(usize),
    Dir,
    Denied,
    /// open fails with the given kind
    OpenErr(IoKind),
}

#[derive(Serialize, Deserialize, Clone, Copy, Debug, PartialEq, Eq, Hash, PartialOrd, Ord)]
pub enum IoKind {
    NotFound,
    PermissionDenied,
    Interrupted,
    WouldBlock,
    UnexpectedEof,
    Other,
    InvalidData,
    InvalidInput,
    OutOfMemory,
    TimedOut,
    IsADirectory,
}

impl IoKind {
    pub fn all_read() -> &'static [IoKind] {
        &[
            IoKind::Interrupted,
            IoKind::WouldBlock,
            IoKind::UnexpectedEof,
            IoKind::Other,
            IoKind::InvalidData,
            IoKind::TimedOut,
            IoKind::IsADirectory,
        ]
    }
    pub fn all_open() -> &'static [IoKind] {
        &[
            IoKind::NotFound,
            IoKind::PermissionDenied,
            IoKind::InvalidInput,
            IoKind::Other,
            IoKind::Interrupted,
            IoKind::OutOfMemory,
        ]
    }
    pub fn to_err(self) -> io::Error {
        let k = match self {
            IoKind::NotFound => ErrorKind::NotFound,
            IoKind::PermissionDenied => ErrorKind::PermissionDenied,
            IoKind::Interrupted => ErrorKind::Interrupted,
            IoKind::WouldBlock => ErrorKind::WouldBlock,
            IoKind::UnexpectedEof => ErrorKind::UnexpectedEof,
            IoKind::Other => ErrorKind::Other,
            IoKind::InvalidData => ErrorKind::InvalidData,
            IoKind::InvalidInput => ErrorKind::InvalidInput,
            IoKind::OutOfMemory => ErrorKind::OutOfMemory,
            IoKind::TimedOut => ErrorKind::TimedOut,
            IoKind::IsADirectory => ErrorKind::Other, // stable Rust: EISDIR surfaces on read()
        };
        io::Error::new(k, format!("simulated {:?}", self))
    }
    pub fn benign(self) -> bool {
        matches!(self, IoKind::Interrupted)
    }
}

#[derive(Serialize, Deserialize, Clone, Debug, PartialEq)]
#[serde(tag = "t", content = "v")]
pub enum ReadAct {
    /// deliver at most n bytes (0 = as many as the caller's buffer takes)
    Give(usize),
    /// fail this read call
    Err(IoKind),
    /// report EOF now (and from now on), although data remains: truncation
    Eof,
}

#[derive(Serialize, Deserialize, Clone, Copy, Debug, PartialEq, Eq, Default)]
pub enum ParentMode {
    /// the trait's default implementation (real code of the repo)
    #[default]
    TraitDefault,
    ReturnNone,
    ReturnEmpty,
    ReturnUnrelated,
    /// what node's path.dirname answers ("." for names without a directory, "/" for "/")
    NodeDirname,
}

#[derive(Serialize, Deserialize, Clone, Debug, Default, PartialEq)]
pub struct FaultPlan {
    #[serde(default)]
    pub parent: ParentMode,
    /// decision for the i-th open of this call (missing = open normally)
    #[serde(default)]
    pub opens: Vec<Option<IoKind>>,
    /// decision for the i-th `read()` call of this rewrite call, counted across all opened readers
    /// (missing = Give(default_chunk))
    #[serde(default)]
    pub reads: Vec<ReadAct>,
    /// default max bytes per read (0 = fill the caller's buffer)
    #[serde(default)]
    pub default_chunk: usize,
    /// bit flips applied to the content of every file opened: (byte position, bit)
    #[serde(default)]
    pub flips: Vec<(usize, u8)>,
    /// max consecutive Interrupted the simulator will inject (so that "faults stop")
    #[serde(default)]
    pub eintr_cap: usize,
    /// the file's content is cut at this byte when opened (lost tail / torn write)
    #[serde(default)]
    pub truncate: Option<usize>,
    /// simulated latency: every open / every read() call advances the simulator's clock by this
    /// many milliseconds (slow disk, network file system); benign - must not change any result
    #[serde(default)]
    pub open_latency_ms: u64,
    #[serde(default)]
    pub read_latency_ms: u64,
    /// the reader re-enters the rewriter at its first open (a nested rewrite of another file on
    /// another instance runs to completion); benign - must not change the outer result
    #[serde(default)]
    pub reenter: bool,
}

impl FaultPlan {
    pub fn clean() -> FaultPlan {
        FaultPlan::default()
    }
    pub fn is_clean(&self) -> bool {
        self.opens.iter().all(|o| o.is_none())
            && self.flips.is_empty()
            && self.truncate.is_none()
            && self.parent == ParentMode::TraitDefault
            && self
                .reads
                .iter()
                .all(|r| matches!(r, ReadAct::Give(_)))
    }
    /// only short reads and EINTR: must never change any result
    pub fn is_benign(&self) -> bool {
        self.opens.iter().all(|o| o.is_none())
            && self.flips.is_empty()
            && self.truncate.is_none()
            && self.parent == ParentMode::TraitDefault
            && self.reads.iter().all(|r| match r {
                ReadAct::Give(_) => true,
                ReadAct::Err(k) => k.benign(),
                ReadAct::Eof => false,
            })
    }
}

#[derive(Serialize, Deserialize, Clone, Debug, Default, PartialEq)]
pub struct FsSpec {
    pub nodes: BTreeMap<String, FsNode>,
}

impl FsSpec {
    pub fn content(&self, path: &str) -> Option<Vec<u8>> {
        match self.nodes.get(path)? {
            FsNode::Text(s) => Some(s.as_bytes().to_vec()),
            FsNode::B64(s) => crate::prng::b64_decode(s),
            FsNode::HugeMap(n) => Some(huge_map(*n)),
            FsNode::BigBody(n) => Some(big_body(*n)),
            _ => None,
        }
    }
}

pub fn big_body(n: usize) -> Vec<u8> {
    let head = "{\"version\":3,\"sources\":[\"big.ts\"],\"sourcesContent\":[\"";
    let tail = "\"],\"names\":[\"n\"],\"mappings\":\"AAAAA;AACA;AACA\"}";
    let fill = n.saturating_sub(head.len() + tail.len());
    let mut s = String::with_capacity(n + 16);
    s.push_str(head);
    for i in 0..fill {
        s.push(if i % 64 == 63 { ' ' } else { 'x' });
    }
    s.push_str(tail);
    s.into_bytes()
}

pub fn huge_map(n: usize) -> Vec<u8> {
    let mut s = String::with_capacity(n * 9 + 200);
    s.push_str("{\"version\":3,\"sources\":[\"big.ts\"],\"names\":[\"n\"],\"mappings\":\"");
    for i in 0..n {
        if i % 40 == 39 {
            s.push(';');
            s.push_str("AACA");
        } else {
            if i % 40 != 0 {
                s.push(',');
            }
            s.push_str("CAAC");
        }
    }
    s.push_str("\"}");
    s.into_bytes()
}

#[derive(Default, Debug, Clone)]
pub struct ReaderStats {
    pub opens: Vec<String>,
    pub parent_calls: usize,
    pub open_errs: usize,
    pub read_calls: usize,
    pub bytes_served: usize,
    pub faults_fired: BTreeMap<String, usize>,
    pub short_reads: usize,
    pub eof_seen: usize,
    /// read calls made after the reader already reported EOF or a fatal error
    pub reads_after_end: usize,
    pub max_buf: usize,
    pub body_len: usize,
    /// simulated milliseconds this reader advanced the clock by
    pub sim_ms: u64,
}

struct Shared {
    plan: FaultPlan,
    read_idx: usize,
    open_idx: usize,
    consecutive_eintr: usize,
    stats: ReaderStats,
}

pub struct SimFileReader<'a> {
    fs: FsSpec,
    shared: Rc<RefCell<Shared>>,
    /// run once, at the first open: the host's reader re-enters the rewriter (a require hook
    /// firing while a map file is being loaded rewrites another file on another instance)
    reenter: RefCell<Option<Box<dyn FnOnce() + 'a>>>,
}

pub struct SimRead {
    data: Vec<u8>,
    pos: usize,
    ended: bool,
    shared: Rc<RefCell<Shared>>,
}

impl<'a> SimFileReader<'a> {
    pub fn new(fs: &FsSpec, plan: &FaultPlan) -> SimFileReader<'a> {
        SimFileReader {
            reenter: RefCell::new(None),
            fs: fs.clone(),
            shared: Rc::new(RefCell::new(Shared {
                plan: plan.clone(),
                read_idx: 0,
                open_idx: 0,
                consecutive_eintr: 0,
                stats: ReaderStats::default(),
            })),
        }
    }
    pub fn stats(&self) -> ReaderStats {
        self.shared.borrow().stats.clone()
    }
    pub fn with_reenter(self, f: Box<dyn FnOnce() + 'a>) -> SimFileReader<'a> {
        *self.reenter.borrow_mut() = Some(f);
        self
    }
}

fn fire(sh: &mut Shared, name: &str) {
    *sh.stats.faults_fired.entry(name.to_string()).or_insert(0) += 1;
}

impl<'a> FileReader<SimRead> for SimFileReader<'a> {
    fn read(&self, path: &Path) -> io::Result<SimRead> {
        let re = self.reenter.borrow_mut().take();
        if let Some(f) = re {
            f();
            fire(&mut self.shared.borrow_mut(), "reentrant-rewrite-from-reader");
        }
        let mut sh = self.shared.borrow_mut();
        if sh.plan.open_latency_ms > 0 {
            instant::sim::advance(std::time::Duration::from_millis(sh.plan.open_latency_ms));
            sh.stats.sim_ms += sh.plan.open_latency_ms;
            fire(&mut sh, "latency:open");
        }
        let p = path.to_string_lossy().to_string();
        sh.stats.opens.push(p.clone());
        let idx = sh.open_idx;
        sh.open_idx += 1;
        if let Some(Some(k)) = sh.plan.opens.get(idx).cloned() {
            sh.stats.open_errs += 1;
            fire(&mut sh, &format!("open:{:?}", k));
            return Err(k.to_err());
        }
        match self.fs.nodes.get(&p) {
            None => {
                sh.stats.open_errs += 1;
                fire(&mut sh, "open:fs-missing");
                Err(IoKind::NotFound.to_err())
            }
            Some(FsNode::Denied) => {
                sh.stats.open_errs += 1;
                fire(&mut sh, "open:fs-denied");
                Err(IoKind::PermissionDenied.to_err())
            }
            Some(FsNode::OpenErr(k)) => {
                sh.stats.open_errs += 1;
                fire(&mut sh, &format!("open:fs-{:?}", k));
                Err(k.to_err())
            }
            Some(FsNode::Dir) => {
                // like File::open on a directory: open succeeds, the first read fails
                fire(&mut sh, "open:fs-directory");
                Ok(SimRead {
                    data: Vec::new(),
                    pos: usize::MAX,
                    ended: false,
                    shared: self.shared.clone(),
                })
            }
            Some(_) => {
                let mut data = self.fs.content(&p).unwrap_or_default();
                let flips = sh.plan.flips.clone();
                for (pos, bit) in flips {
                    if pos < data.len() {
                        data[pos] ^= 1u8 << (bit & 7);
                        fire(&mut sh, "flip");
                    }
                }
                if let Some(t) = sh.plan.truncate {
                    if t < data.len() {
                        data.truncate(t);
                        fire(&mut sh, "truncate");
                    }
                }
                sh.stats.body_len += data.len();
                Ok(SimRead {
                    data,
                    pos: 0,
                    ended: false,
                    shared: self.shared.clone(),
                })
            }
        }
    }

    fn parent(&self, path: &Path) -> Option<PathBuf> {
        let mode = {
            let mut sh = self.shared.borrow_mut();
            sh.stats.parent_calls += 1;
            sh.plan.parent
        };
        match mode {
            // the trait's own default body (real code): path.parent().map(PathBuf::from)
            ParentMode::TraitDefault => DefaultParent.parent(path),
            ParentMode::ReturnNone => {
                fire(&mut self.shared.borrow_mut(), "parent:none");
                None
            }
            ParentMode::ReturnEmpty => {
                fire(&mut self.shared.borrow_mut(), "parent:empty");
                Some(PathBuf::new())
            }
            ParentMode::ReturnUnrelated => {
                fire(&mut self.shared.borrow_mut(), "parent:unrelated");
                Some(PathBuf::from("/somewhere/else"))
            }
            ParentMode::NodeDirname => {
                fire(&mut self.shared.borrow_mut(), "parent:node-dirname");
                Some(PathBuf::from(node_dirname(&path.to_string_lossy())))
            }
        }
    }
}

/// A FileReader that only exists to reach the trait's default `parent` (real repo code).
struct DefaultParent;
impl FileReader<io::Empty> for DefaultParent {
    fn read(&self, _path: &Path) -> io::Result<io::Empty> {
        Ok(io::empty())
    }
}

/// node's posix path.dirname
pub fn node_dirname(p: &str) -> String {
    if p.is_empty() {
        return ".".into();
    }
    let b = p.as_bytes();
    let has_root = b[0] == b'/';
    let mut end: isize = -1;
    let mut matched_slash = true;
    let mut i = b.len() as isize - 1;
    while i >= 1 {
        if b[i as usize] == b'/' {
            if !matched_slash {
                end = i;
                break;
            }
        } else {
            matched_slash = false;
        }
        i -= 1;
    }
    if end == -1 {
        return if has_root { "/".into() } else { ".".into() };
    }
    if has_root && end == 1 {
        return "//".into();
    }
    p[..end as usize].to_string()
}

impl Read for SimRead {
    fn read(&mut self, buf: &mut [u8]) -> io::Result<usize> {
        let mut sh = self.shared.borrow_mut();
        sh.stats.read_calls += 1;
        if sh.plan.read_latency_ms > 0 {
            instant::sim::advance(std::time::Duration::from_millis(sh.plan.read_latency_ms));
            sh.stats.sim_ms += sh.plan.read_latency_ms;
            fire(&mut sh, "latency:read");
        }
        if buf.len() > sh.stats.max_buf {
            sh.stats.max_buf = buf.len();
        }
        if self.ended {
            sh.stats.reads_after_end += 1;
        }
        if self.pos == usize::MAX {
            // directory
            self.ended = true;
            fire(&mut sh, "read:EISDIR");
            return Err(IoKind::IsADirectory.to_err());
        }
        let idx = sh.read_idx;
        sh.read_idx += 1;
        let act = sh
            .plan
            .reads
            .get(idx)
            .cloned()
            .unwrap_or(ReadAct::Give(sh.plan.default_chunk));
        match act {
            ReadAct::Err(k) => {
                if k == IoKind::Interrupted {
                    let cap = if sh.plan.eintr_cap == 0 { 8 } else { sh.plan.eintr_cap };
                    if sh.consecutive_eintr >= cap {
                        // faults stop: fall through to a normal delivery
                        sh.consecutive_eintr = 0;
                        drop(sh);
                        return self.give(buf, 0);
                    }
                    sh.consecutive_eintr += 1;
                } else {
                    sh.consecutive_eintr = 0;
                    self.ended = true;
                }
                fire(&mut sh, &format!("read:{:?}", k));
                Err(k.to_err())
            }
            ReadAct::Eof => {
                sh.consecutive_eintr = 0;
                if self.pos < self.data.len() {
                    fire(&mut sh, "read:truncate");
                }
                self.pos = self.data.len();
                self.ended = true;
                sh.stats.eof_seen += 1;
                Ok(0)
            }
            ReadAct::Give(n) => {
                sh.consecutive_eintr = 0;
                drop(sh);
                self.give(buf, n)
            }
        }
    }
}

impl SimRead {
    fn give(&mut self, buf: &mut [u8], max: usize) -> io::Result<usize> {
        let mut sh = self.shared.borrow_mut();
        let remaining = self.data.len() - self.pos.min(self.data.len());
        let mut n = remaining.min(buf.len());
        if max > 0 && max < n {
            n = max;
            sh.stats.short_reads += 1;
            fire(&mut sh, "read:short");
        }
        buf[..n].copy_from_slice(&self.data[self.pos..self.pos + n]);
        self.pos += n;
        sh.stats.bytes_served += n;
        if n == 0 && !buf.is_empty() {
            self.ended = true;
            sh.stats.eof_seen += 1;
        }
        Ok(n)
    }
}
