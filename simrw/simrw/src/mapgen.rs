//! Generator of *original* source maps O for a given program text (the map a transpiler would
//! have shipped with the file), serialised with the harness's own VLQ encoder.

use crate::prng::Rng;
use crate::smap::{Map, Tok};

#[derive(Clone, Debug)]
pub struct MapShape {
    pub sources: usize,
    pub names: bool,
    pub source_root: Option<String>,
    pub sparse: bool,
    pub sourceless_segments: bool,
    pub sources_content: bool,
    /// 0 = covers the program from its first line, 1 = first token late in the file, 2 = no mapping at all
    pub coverage: u8,
    /// some tokens are range mappings (then every non-empty line has a token at column 0, so a
    /// lookup never falls back across lines)
    pub ranges: bool,
    /// segments of a line listed out of column order in the serialised map
    pub unsorted: bool,
    /// a repeated source may be spelled differently (`./src/a.js` next to `src/a.js`); only C10 sets it, so the
    /// streams of the other engines do not depend on it
    pub alt_spelling: bool,
}

pub fn gen_shape(rng: &mut Rng) -> MapShape {
    MapShape {
        sources: rng.range(1, 4),
        names: rng.chance(1, 2),
        source_root: match rng.below(8) {
            0 => Some("src".into()),
            1 => Some("src/".into()),
            2 => Some("/abs/root/".into()),
            3 => Some("".into()),
            4 => Some("/lib".into()),
            5 => Some("https://cdn.example/pkg".into()),
            _ => None,
        },
        sparse: rng.chance(1, 2),
        // one-field segments (generated code without an original position) in some maps
        sourceless_segments: rng.chance(1, 4),
        sources_content: rng.chance(1, 3),
        coverage: *rng.pick(&[0u8, 0, 0, 0, 0, 0, 0, 1, 1, 2]),
        ranges: rng.chance(1, 5),
        unsorted: rng.chance(1, 5),
        alt_spelling: false,
    }
}

/// Tokens at strictly increasing generated positions inside the program's extent; no duplicates.
pub fn gen_orig_map(rng: &mut Rng, program: &str, shape: &MapShape) -> Map {
    let mut m = Map::default();
    m.file = Some("out.js".into());
    m.source_root = shape.source_root.clone();
    if shape.unsorted {
        m.shuffle_salt = 1 + rng.next_u64() % 1_000_000;
    }
    let unicode = rng.chance(1, 3);
    let dup = rng.chance(1, 6);
    for i in 0..shape.sources {
        m.sources.push(match i {
            0 => if unicode { "orig/a\u{f1}adir.ts".to_string() } else { "orig/main.ts".to_string() },
            // real maps repeat entries (one bundle input listed twice)
            // ... or the same path in another spelling
            1 => if dup { if shape.alt_spelling && rng.chance(1, 2) { format!("./{}", m.sources[0]) } else { m.sources[0].clone() } } else { "util.ts".to_string() },
            2 => if unicode { "../\u{5171}\u{4eab}/lib.ts".to_string() } else { "../shared/lib.ts".to_string() },
            _ => format!("gen{}.ts", i),
        });
    }
    // absolute and URL sources (never prefixed with the sourceRoot), some of which merely START with
    // the text of the root
    if rng.chance(1, 4) {
        let k = rng.below(m.sources.len());
        m.sources[k] = (*rng.pick(&["/library/util.js", "/lib/inner/x.ts", "/abs/rootless/y.ts", "https://cdn.example/pkgs/z.ts", "http://other.example/w.ts", "webpack:///src/a.ts", "/abs/root/in/root.ts"])).to_string();
    }
    if shape.sources_content {
        for i in 0..shape.sources {
            // some entries null, as bundlers emit for external sources
            m.sources_content.push(if rng.chance(1, 4) { None } else { Some(format!("// original source {}\nexport const x{} = {};\n", i, i, i)) });
        }
    }
    if shape.names {
        for n in ["alpha", "beta", "gamma", "delta"] {
            m.names.push(n.to_string());
        }
        if unicode {
            m.names[1] = "a\u{f1}adir\u{1F600}".to_string();
        }
        if dup {
            m.names[2] = m.names[0].clone();
        }
        // the same text in two roles: an identifier named like a source
        if rng.chance(1, 4) {
            let last = m.sources.len() - 1;
            m.sources[last] = "index".to_string();
            m.names[3] = "index".to_string();
            if rng.chance(1, 2) {
                m.names[0] = m.sources[0].clone();
            }
        }
    }
    let line_p = if shape.sparse { 3 } else { 9 };
    let mut sl = rng.below(5) as u32;
    for (li, line) in program.split('\n').enumerate() {
        let len = line.trim_end_matches('\r').chars().count();
        if len == 0 || (!shape.ranges && !rng.chance(line_p, 10)) {
            continue;
        }
        // source lines mostly increase but may jump backwards (hoisting, helpers)
        if rng.chance(1, 10) {
            sl = rng.below(40) as u32;
        } else {
            sl += rng.below(3) as u32;
        }
        let mut col = if shape.ranges || rng.chance(2, 3) { 0 } else { rng.below(len.min(8)) };
        let mut sc = rng.below(6) as u32;
        while col < len {
            let src = rng.below(shape.sources) as u32;
            let name = if shape.names && rng.chance(1, 3) {
                Some(rng.below(m.names.len()) as u32)
            } else {
                None
            };
            if shape.sourceless_segments && !shape.ranges && rng.chance(1, 12) {
                m.toks.push(Tok { gl: li as u32, gc: col as u32, src: None, sl: 0, sc: 0, name: None, range: false });
            } else {
                m.toks.push(Tok { gl: li as u32, gc: col as u32, src: Some(src), sl, sc, name, range: shape.ranges && rng.chance(1, 3) });
            }
            let step = if shape.sparse { rng.range(3, 25) } else { rng.range(1, 9) };
            col += step;
            sc += rng.range(1, 12) as u32;
        }
    }
    match if shape.ranges { 0 } else { shape.coverage } {
        1 => {
            // only the last quarter of the lines is mapped
            let n_lines = program.split('\n').count() as u32;
            m.toks.retain(|t| t.gl * 4 >= n_lines * 3);
        }
        2 => m.toks.clear(),
        _ => {
            if m.toks.is_empty() {
                m.toks.push(Tok { gl: 0, gc: 0, src: Some(0), sl: 0, sc: 0, name: None, range: false });
            }
        }
    }
    m
}
