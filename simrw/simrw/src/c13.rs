//! C13 — the rewriter is total: returns a result or an error, never panics or hangs.
//! (i) sweep: every single-fault point of the source-map reader for sampled executions,
//! (ii) random: multi-fault schedules x file-name shapes x reference kinds x configurations x
//! source texts (valid, token-/byte-mutated, random).

use crate::driver::{Engine, RunReport, Tier, Violation};
use crate::exec::{self, Outcome};
use crate::fsim::{FaultPlan, FsNode, FsSpec, IoKind, ParentMode, ReadAct};
use crate::jsgen::{self, GenOpts};
use crate::mapgen;
use crate::prng::{b64_encode, fnv64, mix, Rng};
use serde::{Deserialize, Serialize};
use serde_json::{json, Value};
use std::collections::BTreeSet;

#[derive(Serialize, Deserialize, Clone, Debug)]
pub struct Case13 {
    pub cfg: Value,
    pub prng_seed: u64,
    pub file: String,
    pub source: String,
    pub fs: FsSpec,
    pub faults: FaultPlan,
    /// labels: source kind, file-name shape, reference kind, map class
    pub tags: Vec<String>,
    /// process-wide log level while the call runs ("off" | "error" | "debug" | "trace"): the tracer
    /// may have switched the rewriter's logger on at any time
    #[serde(default)]
    pub log_level: String,
    /// the reader re-enters: at its first open a complete rewrite runs on another instance
    #[serde(default)]
    pub reenter: bool,
    /// environment fault: the process's working directory has been removed when the call is made
    #[serde(default)]
    pub cwd_gone: bool,
}

#[derive(Serialize, Deserialize, Clone, Debug)]
pub struct Plan13 {
    /// "single": one call with `case.faults`; "sweep": enumerate every single-fault point
    pub mode: String,
    pub case: Case13,
    /// sweep only: chunk size used by the fault-free reference execution
    #[serde(default)]
    pub sweep_chunk: usize,
    #[serde(default)]
    pub sweep_seed: u64,
}

pub struct C13;

pub const FILE_NAMES: &[(&str, &str)] = &[
    ("", "empty"),
    ("/", "root"),
    ("a.js", "bare"),
    ("dir/a.js", "relative"),
    ("/abs/dir/a.js", "absolute"),
    ("..", "dotdot"),
    (".", "dot"),
    ("a/b/../c.js", "dotdot-inside"),
    ("dir/", "trailing-slash"),
    ("/abs/my dir/a b.js", "spaces"),
    ("/abs/d\u{ef}r/\u{4f60}\u{597d}.js", "non-ascii"),
    ("C:\\x\\a.js", "windows"),
    ("/abs/nul\u{0}x.js", "nul"),
    ("LONG", "long"),
    ("LONGCJK", "long-cjk"),
    ("/abs/issue#12/what?.js", "hash-and-question-mark"),
    ("/abs/dir/gen\\util.js", "backslash-in-base-name"),
    ("file://app.mjs", "file-url-no-path"),
    ("file://", "file-url-empty"),
    ("file:///abs/dir/a.mjs", "file-url"),
    ("file://C:\\app\\dist\\index.js", "file-url-windows"),
];

fn file_name(rng: &mut Rng) -> (String, &'static str) {
    // bias towards ordinary names: half of the runs use an absolute path
    if rng.chance(1, 2) {
        return ("/abs/dir/a.js".into(), "absolute");
    }
    let (n, shape) = *rng.pick(FILE_NAMES);
    if n == "LONG" {
        let mut s = String::from("/abs/");
        for i in 0..500 {
            s.push_str(&format!("seg{:05}/", i));
        }
        s.push_str("a.js");
        (s, shape)
    } else if n == "LONGCJK" {
        // multi-byte characters at every alignment
        let mut s = String::from("/abs/");
        for _ in 0..rng.range(0, 2) {
            s.push('x');
        }
        for i in 0..rng.range(60, 140) {
            s.push(['\u{4f60}', '\u{597d}', '\u{e9}', '\u{1F600}'][i % 4]);
        }
        s.push_str(".js");
        (s, shape)
    } else {
        (n.to_string(), shape)
    }
}

pub fn dir_of(f: &str) -> Option<String> {
    // std::path::Path::parent semantics for the simple shapes used here
    std::path::Path::new(f).parent().map(|p| p.to_string_lossy().to_string())
}

pub fn join(dir: &str, rel: &str) -> String {
    std::path::Path::new(dir).join(rel).to_string_lossy().to_string()
}

fn gen_cfg(rng: &mut Rng) -> (Value, &'static str) {
    let mut side = rng.side(0xc0f6);
    let mut side2 = rng.side(0xc0f7);
    let (mut c, kind) = gen_cfg0(rng);
    // round r (side stream): the template operator configured WITHOUT the plus operator - a `+` inside a
    // substitution then reaches the template transform untouched
    if side2.chance(1, 10) {
        if let Some(ms) = c.get_mut("csiMethods").and_then(|m| m.as_array_mut()) {
            ms.retain(|m| m.get("src").and_then(|x| x.as_str()) != Some("plusOperator"));
        }
    }
    // configuration values spelled in another case (operator entries are matched by name in several places),
    // drawn from a side stream so that every other choice stays as it was
    if side.chance(1, 6) {
        if let Some(ms) = c.get_mut("csiMethods").and_then(|m| m.as_array_mut()) {
            let respell = |s: &str, k: usize| -> String {
                match k {
                    0 => s.to_lowercase(),
                    1 => s.to_uppercase(),
                    2 => {
                        let mut c = s.chars();
                        c.next().map(|f| f.to_uppercase().collect::<String>() + c.as_str()).unwrap_or_default()
                    }
                    _ => s.chars().enumerate().map(|(i, ch)| if i % 2 == 0 { ch.to_ascii_uppercase() } else { ch.to_ascii_lowercase() }).collect(),
                }
            };
            let k = side.below(4);
            let dup = side.chance(1, 2);
            let mut extra = vec![];
            for m in ms.iter_mut() {
                let is_op = m.get("operator").and_then(|o| o.as_bool()).unwrap_or(false);
                if let Some(src) = m.get("src").and_then(|x| x.as_str()).map(String::from) {
                    if is_op || side.chance(1, 4) {
                        let mut n = m.clone();
                        n["src"] = Value::from(respell(&src, k));
                        if dup {
                            extra.push(n);
                        } else {
                            *m = n;
                        }
                    }
                }
            }
            ms.extend(extra);
            return (c, kind);
        }
    }
    (c, kind)
}

fn gen_cfg0(rng: &mut Rng) -> (Value, &'static str) {
    match rng.below(12) {
        0..=5 => {
            let mut c = exec::tracer_like_cfg(
                if rng.chance(1, 2) { Some("test") } else { None },
                rng.chance(3, 4),
                rng.chance(1, 2),
                *rng.pick(&["OFF", "INFORMATION", "DEBUG", "MANDATORY", "bogus", ""]),
                rng.chance(1, 2),
            );
            match rng.below(6) {
                // methods that may be called without a callee (`fn0(x)`), as the tracer configures for `eval`-likes
                0 | 1 => {
                    if let Some(ms) = c["csiMethods"].as_array_mut() {
                        ms.push(json!({"src": "fn0", "allowedWithoutCallee": true}));
                        ms.push(json!({"src": "trim", "allowedWithoutCallee": true}));
                    }
                }
                // string methods only: no operator is rewritten
                2 => {
                    if let Some(ms) = c["csiMethods"].as_array_mut() {
                        ms.retain(|m| m.get("operator").is_none());
                    }
                }
                _ => {}
            }
            (c, "tracer-like")
        }
        6 => (json!({}), "empty-object"),
        7 => (json!("not an object"), "not-an-object"),
        8 => {
            // odd method names: the prologue template may not parse
            let odd = ["", "constructor", "__proto__", "a-b", "1x", "with space", "\u{e9}", "toString", "call", "apply"];
            let mut methods = vec![json!({"src": "plusOperator", "operator": true}), json!({"src": "tplOperator", "operator": true})];
            for _ in 0..rng.range(1, 4) {
                let s = *rng.pick(&odd);
                let mut m = json!({"src": s});
                if rng.chance(1, 2) {
                    m["dst"] = Value::from(*rng.pick(&odd));
                }
                if rng.chance(1, 3) {
                    m["allowedWithoutCallee"] = Value::from(true);
                }
                if rng.chance(1, 4) {
                    m["operator"] = Value::from(true);
                }
                methods.push(m);
            }
            (json!({"chainSourceMap": true, "comments": rng.chance(1, 2), "csiMethods": methods, "localVarPrefix": "test"}), "odd-methods")
        }
        9 => {
            let odd = ["", "a b", "1x", "\u{e9}\u{4f60}", "$", "__proto__", "x".repeat(3000).as_str()].map(String::from);
            let mut c = exec::tracer_like_cfg(None, true, rng.chance(1, 2), "DEBUG", true);
            c["localVarPrefix"] = Value::from(rng.pick(&odd).clone());
            (c, "odd-prefix")
        }
        10 => {
            // renamed operators / only some operators
            (
                json!({"chainSourceMap": true, "comments": true, "csiMethods": [
                {"src": "plusOperator", "dst": "p", "operator": true},
                {"src": "concat", "dst": "c"}, {"src": "trim"}, {"src": "fn0", "allowedWithoutCallee": true}],
                "telemetryVerbosity": "DEBUG", "literals": true}),
                "renamed",
            )
        }
        _ => (
            json!({"chainSourceMap": "yes", "comments": 1, "csiMethods": {"src": 1}, "localVarPrefix": 7}),
            "ill-typed",
        ),
    }
}

/// structural mutations of a valid map body
fn mutate_map(rng: &mut Rng, m: &str) -> (Vec<u8>, &'static str) {
    let mut v: Value = serde_json::from_str(m).unwrap_or(json!({}));
    let k = rng.below(22);
    let label: &'static str;
    match k {
        0 => {
            v.as_object_mut().unwrap().remove("mappings");
            label = "no-mappings";
        }
        1 => {
            v.as_object_mut().unwrap().remove("sources");
            label = "no-sources";
        }
        2 => {
            v["mappings"] = json!(12);
            label = "mappings-number";
        }
        3 => {
            v["sources"] = json!("x");
            label = "sources-string";
        }
        4 => {
            v["sources"] = json!([null, 1, {}]);
            label = "sources-odd-items";
        }
        5 => {
            // out-of-range source index
            v["mappings"] = json!("AAAA,CEAA,CgBAA;AAAA");
            v["sources"] = json!(["only.ts"]);
            label = "source-index-out-of-range";
        }
        6 => {
            v["mappings"] = json!("DDDD,DDDD;DDDD,DADAD");
            label = "negative-deltas";
        }
        7 => {
            v["mappings"] = json!("gggggggggggggggggggC,AAAA;+/+/+/+/+/+/+/+/+/+/+/+/D");
            label = "64-bit-vlq";
        }
        8 => {
            v["rangeMappings"] = json!("B;;AB");
            label = "range-mappings";
        }
        9 => {
            v["names"] = json!([1, null, {"a": 1}, "ok"]);
            v["mappings"] = json!("AAAAA,CAAAC,CAAAC,CAAAC");
            label = "names-odd-items";
        }
        10 => {
            v["file"] = json!(42);
            label = "file-number";
        }
        11 => {
            v["sourcesContent"] = json!([null, "x", 3]);
            label = "sources-content-odd";
        }
        12 => {
            v = json!({"version": 3, "sections": [{"offset": {"line": 0, "column": 0}, "map": v}]});
            label = "index-map";
        }
        13 => {
            v = json!({"version": 3, "sections": [{"offset": {"line": 5, "column": 1}, "url": "other.map"}, {"offset": {"line": 0, "column": 0}, "map": {"version": 3, "sections": []}}]});
            label = "index-map-nested";
        }
        14 => {
            v["x_facebook_sources"] = json!([[{"names": ["<global>"], "mappings": "AAA"}]]);
            label = "hermes";
        }
        15 => {
            v["x_facebook_sources"] = json!([[{"names": [], "mappings": "!!!"}], null, 5]);
            label = "hermes-malformed";
        }
        16 => {
            v["mappings"] = json!("A,,,;;;,A,AAAAAA,AA");
            label = "bad-arity";
        }
        17 => {
            v["mappings"] = json!("AA\u{e9}A,@@@@");
            label = "non-base64-mappings";
        }
        18 => {
            v["sourceRoot"] = json!(["x"]);
            label = "sourceRoot-array";
        }
        19 => {
            v["version"] = json!("three");
            label = "version-string";
        }
        20 => {
            v["x_metro_module_paths"] = json!("x");
            v["x_facebook_offsets"] = json!([1, null, "a"]);
            v["sections"] = json!([]);
            label = "ram-bundle";
        }
        _ => {
            v["debug_id"] = json!(17);
            v["debugId"] = json!("zz");
            label = "debug-id";
        }
    }
    (v.to_string().into_bytes(), label)
}

fn raw_bodies(rng: &mut Rng, valid: &str) -> (Vec<u8>, &'static str) {
    match rng.below(14) {
        0 => (Vec::new(), "empty-file"),
        1 => (b"   \n\t ".to_vec(), "whitespace"),
        2 => (format!(")]}}'\n{}", valid).into_bytes(), "junk-header"),
        3 => (format!(")]}}'\r\n{}", valid).into_bytes(), "junk-header-crlf"),
        4 => (format!(")]}}'\rX{}", valid).into_bytes(), "junk-header-bad-newline"),
        5 => (b")]}'".to_vec(), "junk-only"),
        6 => {
            let mut b = vec![0xEF, 0xBB, 0xBF];
            b.extend_from_slice(valid.as_bytes());
            (b, "bom")
        }
        7 => (vec![0xFF, 0xFE, 0x00, 0x80, 0xC3, 0x28], "invalid-utf8"),
        8 => {
            let mut b = valid.as_bytes().to_vec();
            let n = b.len();
            if n > 4 {
                b[n / 2] = 0xC3;
            }
            (b, "utf8-broken-inside")
        }
        9 => ("[".repeat(5000).into_bytes(), "deep-json"),
        10 => (b"null".to_vec(), "json-null"),
        11 => (b"[1,2,3]".to_vec(), "json-array"),
        12 => (format!("{}{}", valid, valid).into_bytes(), "doubled"),
        _ => (valid.as_bytes()[..valid.len() / 2].to_vec(), "half"),
    }
}

/// arbitrary reference text: data-URL look-alikes, percent escapes, multi-byte characters
fn fuzz_url(rng: &mut Rng) -> String {
    let heads = [
        "data:", "data:application/json", "data:application/json;base64", "data:application/json;charset=utf-8",
        "data:application/json;charset=utf-8;base64", "data:text/plain", "DATA:application/json;base64", "", "http://h/",
        "file://", "./", "//", "data:application/json;base64,eyJ2ZXJzaW9uIjozfQ", "blob:", "data:;base64",
    ];
    let alphabet: Vec<char> = "abcXYZ019+/=%%%,,;;:.?#&_-~ \t\\'\"{}[]()<>|^`@!$*\u{e9}\u{4f60}\u{1F600}\u{0}".chars().collect();
    // round r (side stream): a data URL whose header holds a character that GROWS when it is lower-cased
    // (U+0130, U+023A, U+023E: two bytes become three), with a payload that is empty, shorter than the growth, or
    // starts with a multi-byte character - byte offsets taken from a case-folded copy do not fit the original
    let mut side = rng.side(0x0130);
    let grow = if side.chance(1, 5) {
        let g = *side.pick(&["\u{130}", "\u{23a}", "\u{23e}", "\u{130}\u{130}\u{23a}"]);
        let head = *side.pick(&["data:application/json;charset=", "DATA:APPLICATION/JSON;CHARSET=", "data:application/json;x="]);
        let payload = *side.pick(&["", "", "e", "e3", "\u{e9}30=", "\u{4f60}", "e30=", "eyJ2ZXJzaW9uIjozfQ=="]);
        Some(format!("{}{}SO-8859-9;base64,{}", head, g, payload))
    } else {
        None
    };
    let mut s = String::from(*rng.pick(&heads));
    if rng.chance(3, 4) {
        s.push(*rng.pick(&[',', ';', ',', '/']));
    }
    for _ in 0..rng.range(0, 40) {
        s.push(*rng.pick(&alphabet));
    }
    match rng.below(6) {
        0 => s.push('%'),
        1 => s.push_str("%4"),
        2 => s.push_str("%\u{e9}"),
        3 => s.push_str("%7\u{4f60}"),
        4 => s.push_str("%zz"),
        _ => {}
    }
    if let Some(g) = grow {
        return g;
    }
    // the comment ends at the line break: keep it on one line
    s.replace(['\n', '\r', '\u{2028}', '\u{2029}'], " ")
}

fn gen_source(rng: &mut Rng, big: bool) -> (String, &'static str, bool) {
    // returns (text, kind, is_valid_program)
    let mut o = GenOpts::small();
    o.items = if big { rng.range(4, 10) } else { rng.range(1, 3) };
    o.stmts = rng.range(1, 4);
    o.depth = rng.range(1, 3);
    o.module = rng.chance(1, 5);
    o.strict = rng.chance(1, 3);
    o.comments = rng.chance(1, 2);
    o.crlf = rng.chance(1, 8);
    o.unicode = rng.chance(1, 4);
    let (p, _) = jsgen::gen_program(rng, o);
    match rng.below(38) {
        36 | 37 => {
            // dozens to hundreds of literals, named and unnamed (the literal report: sorting, buffers)
            let n = *rng.pick(&[21usize, 30, 60, 120, 300]);
            (jsgen::gen_many_literals(rng, n), "many-literals", true)
        }
        33 | 34 => (jsgen::gen_prologue(rng), "directive-prologue", true),
        35 => (jsgen::gen_long_line_error(rng), "long-line-syntax-error", false),
        31 | 32 => {
            let n = *rng.pick(&[64usize, 65, 100, 128, 255, 256, 257, 511, 512, 513, 600, 1024]);
            (jsgen::gen_repeat(rng, n), "repeated-construct", true)
        }
        29 | 30 => {
            let n = rng.range(1, 5);
            (jsgen::gen_module(rng, n), "module-syntax", true)
        }
        26..=28 => {
            let n = rng.range(1, 4);
            let t = jsgen::gen_corpus(rng, n);
            if rng.chance(1, 4) {
                (jsgen::mutate_tokens(rng, &t, 2), "corpus-mutated", false)
            } else {
                (t, "corpus", true)
            }
        }
        24 | 25 => {
            let n = *rng.pick(jsgen::BOUNDARY);
            (jsgen::gen_wide(rng, n), "wide-expression", true)
        }
        21..=23 => {
            let n = rng.range(1, 6);
            (jsgen::gen_zoo(rng, n), "syntax-zoo", true)
        }
        0..=10 => (p, "valid", true),
        11 | 12 => {
            let n = rng.range(1, 6);
            (jsgen::mutate_tokens(rng, &p, n), "token-mutated", false)
        }
        13 => {
            // byte-level mutation kept valid UTF-8 by operating on chars
            let mut cs: Vec<char> = p.chars().collect();
            for _ in 0..rng.range(1, 8) {
                if cs.is_empty() {
                    break;
                }
                let i = rng.below(cs.len());
                match rng.below(3) {
                    0 => {
                        cs.remove(i);
                    }
                    1 => cs[i] = *rng.pick(&['\u{0}', '\u{feff}', '\\', '`', '$', '{', '}', '\u{2028}', '\u{d7ff}', '/', '*', '"', '\'', '\r']),
                    _ => cs.insert(i, *rng.pick(&['(', ')', '[', ']', '\n', '\u{1F600}', '#', '@'])),
                }
            }
            (cs.into_iter().collect(), "char-mutated", false)
        }
        14 => {
            let n = rng.range(0, 200);
            let alphabet: Vec<char> = "abc xyz(){}[];,.+-*/=<>!&|?:'\"`$\\\n\t0123456789_#@\u{e9}\u{4f60}".chars().collect();
            let s: String = (0..n).map(|_| *rng.pick(&alphabet)).collect();
            (s, "random-text", false)
        }
        15 => (format!("\u{feff}{}", p), "bom", true),
        16 => {
            // very long line
            let mut s = String::from("function longline(a, b) { return a");
            for _ in 0..rng.range(200, 1500) {
                s.push_str(" + b");
            }
            s.push_str("; }\n");
            (s, "long-line", true)
        }
        17 => {
            // nesting capped at depth 30
            let d = rng.range(5, 30);
            let mut s = String::from("function nest(a, b) { return ");
            for _ in 0..d {
                s.push_str("(a + ");
            }
            s.push('b');
            for _ in 0..d {
                s.push(')');
            }
            s.push_str("; }\n");
            (s, "nested", true)
        }
        18 => (String::new(), "empty", true),
        19 => {
            // the reserved prefix of the tracer-like configuration in various placements
            let clash = match rng.below(10) {
                0 => "function clash(a, b) {\n  let __datadog_test_7 = a + b;\n  return __datadog_test_7;\n}\n",
                1 => "function clash(a, b) {\n  const g = (x) => __datadog_test_0 + x;\n  return g(a) + b;\n}\n",
                2 => "function clash(a, b) {\n  const g = (__datadog_test_1) => __datadog_test_1 + a;\n  return g(a) + b;\n}\n",
                3 => "function clash(a, b) {\n  return [a].map((x) => (y) => __datadog_test_0 + x + y)[0](b) + a;\n}\n",
                4 => "const top = (a, b) => { return ((x) => __datadog_test_2 + x)(a) + b; };\n",
                5 => "function clash(a, b) {\n  try { return a + b; } catch (__datadog_test_0) { return ((e) => e + __datadog_test_0)(b); }\n}\n",
                7 => "function clash(a, b) {\n  let __datadog_test_ = a + b;\n  return __datadog_test_ + a;\n}\n",
                8 => "function clash(a, b) {\n  let __datadog_test = a + b, __datadog_test_x = b, __datadog_ = a, __datadog_test_00 = b + a;\n  return __datadog_test + a;\n}\n",
                _ => "function clash(a, b) {\n  class __datadog_test_3 { m() { return a + b; } }\n  return new __datadog_test_3().m() + a;\n}\n",
            };
            (format!("{}\n{}", p, clash), "reserved-prefix", true)
        }
        _ => (format!("#!/usr/bin/env node\n{}", p), "hashbang", true),
    }
}

pub fn gen_case(rng: &mut Rng, tier: Tier, for_sweep: bool) -> Case13 {
    let (cfg, cfg_kind) = if for_sweep {
        (exec::tracer_like_cfg(Some("test"), true, rng.chance(1, 2), "DEBUG", rng.chance(1, 2)), "tracer-like")
    } else {
        gen_cfg(rng)
    };
    let (file, fshape) = if for_sweep {
        (*rng.pick(&["/abs/dir/a.js", "dir/a.js", "a.js"])).to_string().pipe(|f| {
            let s = match f.as_str() {
                "/abs/dir/a.js" => "absolute",
                "dir/a.js" => "relative",
                _ => "bare",
            };
            (f, s)
        })
    } else {
        file_name(rng)
    };
    let big = tier == Tier::Thorough && rng.chance(1, 20);
    let (mut source, skind, _valid) = if for_sweep {
        let mut o = GenOpts::small();
        o.items = rng.range(1, 2);
        o.stmts = 2;
        o.depth = 2;
        (jsgen::gen_program(rng, o).0, "valid", true)
    } else {
        gen_source(rng, big)
    };
    let mut fs = FsSpec::default();
    let shape = mapgen::gen_shape(rng);
    let small_src: String = source.chars().take(if for_sweep { 400 } else { 3000 }).collect();
    let valid_map = mapgen::gen_orig_map(rng, &small_src, &shape).to_json();
    let dir = dir_of(&file).unwrap_or_default();
    let mut ref_kind: String;
    let mut map_class = "valid".to_string();
    let pick = if for_sweep { 6 + rng.below(2) } else { rng.below(21) };
    match pick {
        0 | 1 => {
            ref_kind = "none".into();
        }
        2 => {
            source.push_str(&format!("\n//# sourceMappingURL=data:application/json;base64,{}\n", b64_encode(valid_map.as_bytes())));
            ref_kind = "inline-valid".into();
        }
        3 => {
            let (body, label) = if rng.chance(1, 2) { mutate_map(rng, &valid_map) } else { raw_bodies(rng, &valid_map) };
            source.push_str(&format!("\n//# sourceMappingURL=data:application/json;base64,{}\n", b64_encode(&body)));
            ref_kind = "inline-mutated".into();
            map_class = label.into();
        }
        4 => {
            let variants = [
                "data:application/json;base64,@@@not-base64@@@",
                "data:application/json;base64,",
                "data:application/json;charset=utf-8;base64,e30=",
                "data:application/json,{}",
                "data:,",
                "data:application/json;base64,e30",
                "data:application/json;base64,e30=\t ",
                "",
                " ",
                "http://example.com/a.map",
                "file:///abs/dir/a.js.map",
                "a.js.map?x=1#frag",
                "\\\\server\\share\\a.map",
            ];
            let url = if rng.chance(1, 2) { rng.pick(&variants).to_string() } else { fuzz_url(rng) };
            source.push_str(&format!("\n//# sourceMappingURL={}\n", url));
            ref_kind = "inline-odd-url".into();
        }
        5 if rng.chance(1, 6) => {
            // a really big file at size thresholds (1, 4, 16, 17 MiB): anything that caps, buffers or budgets
            let n = *rng.pick(&[(1usize << 20) + 1, (4 << 20) + 1, (16 << 20) - 1, (16 << 20) + 1, 17 << 20]);
            fs.nodes.insert("big.map".into(), FsNode::BigBody(n));
            fs.nodes.insert(join(&dir, "big.map"), FsNode::BigBody(n));
            source.push_str("\n//# sourceMappingURL=big.map\n");
            ref_kind = "external-big-body".into();
        }
        5 => {
            fs.nodes.insert("big.map".into(), FsNode::HugeMap(if tier == Tier::Thorough { rng.range(1000, 200_000) } else { rng.range(1000, 20_000) }));
            fs.nodes.insert(join(&dir, "big.map"), FsNode::HugeMap(if tier == Tier::Thorough { rng.range(1000, 200_000) } else { rng.range(1000, 20_000) }));
            source.push_str("\n//# sourceMappingURL=big.map\n");
            ref_kind = "external-huge".into();
            map_class = "huge".into();
        }
        6 | 7 | 8 | 9 => {
            // a relative reference that climbs k folders: k ranges over and just beyond the depth of
            // the file's folder
            let depth = std::path::Path::new(&dir).components().count();
            let climb = format!("{}maps/a.js.map", "../".repeat(rng.range(0, depth + 1)));
            let rel_owned = if rng.chance(1, 3) { climb } else { (*rng.pick(&["a.js.map", "maps/a.js.map", "../maps/a.js.map", "./a.js.map", "../a.js.map"])).to_string() };
            let rel = rel_owned.as_str();
            fs.nodes.insert(join(&dir, rel), FsNode::Text(valid_map.clone()));
            source.push_str(&format!("\n//# sourceMappingURL={}\n", rel));
            ref_kind = "external-relative".into();
        }
        10 => {
            // an absolute reference: readable, missing (a root-relative URL of a bundler's public path), or denied
            match rng.below(3) {
                0 => {
                    fs.nodes.insert("/maps/abs.map".into(), FsNode::Text(valid_map.clone()));
                    ref_kind = "external-absolute".into();
                }
                1 => {
                    // the same path exists below an ancestor folder of the file, not at the root
                    fs.nodes.insert(join(&dir, "maps/abs.map"), FsNode::Text(valid_map.clone()));
                    ref_kind = "external-absolute-missing".into();
                }
                _ => {
                    fs.nodes.insert("/maps/abs.map".into(), FsNode::Denied);
                    ref_kind = "external-absolute-denied".into();
                }
            }
            source.push_str("\n//# sourceMappingURL=/maps/abs.map\n");
        }
        11 | 12 => {
            let (body, label) = if rng.chance(2, 3) { mutate_map(rng, &valid_map) } else { raw_bodies(rng, &valid_map) };
            fs.nodes.insert(join(&dir, "m.map"), FsNode::B64(b64_encode(&body)));
            source.push_str("\n//# sourceMappingURL=m.map\n");
            ref_kind = "external-mutated".into();
            map_class = label.into();
        }
        13 => {
            fs.nodes.insert(join(&dir, "adir"), FsNode::Dir);
            source.push_str("\n//# sourceMappingURL=adir\n");
            ref_kind = "external-directory".into();
        }
        14 => {
            source.push_str("\n//# sourceMappingURL=nowhere/missing.map\n");
            ref_kind = "external-missing".into();
        }
        15 => {
            fs.nodes.insert(join(&dir, "secret.map"), if rng.chance(1, 2) { FsNode::Denied } else { FsNode::OpenErr(*rng.pick(IoKind::all_open())) });
            source.push_str("\n//# sourceMappingURL=secret.map\n");
            ref_kind = "external-unreadable".into();
        }
        16 => {
            // several references at one position (deterministic order inside one comment list)
            fs.nodes.insert(join(&dir, "one.map"), FsNode::Text(valid_map.clone()));
            fs.nodes.insert(join(&dir, "two.map"), FsNode::Text(valid_map.clone()));
            source.push_str("\n//# sourceMappingURL=one.map\n//# sourceMappingURL=two.map\n//# sourceMappingURL=data:application/json;base64,e30=\n");
            ref_kind = "several-references".into();
        }
        17 => {
            fs.nodes.insert(join(&dir, "blk.map"), FsNode::Text(valid_map.clone()));
            source.push_str("\n/*# sourceMappingURL=blk.map */\n");
            ref_kind = "block-comment".into();
        }
        18 => {
            // reference text inside literals + a real trailing reference
            fs.nodes.insert(join(&dir, "lit.map"), FsNode::Text(valid_map.clone()));
            source = format!("const lookalike = \"//# sourceMappingURL=lit.map\";\nfunction q(a, b) {{ return a + `# sourceMappingURL=lit.map` + b; }}\n{}\n//# sourceMappingURL=lit.map\n", source);
            ref_kind = "lookalike-literal".into();
        }
        19 => {
            // index maps whose sections point at other map files, including cycles
            let cyc = rng.below(3);
            let sec = |url: &str| json!({"version": 3, "sections": [{"offset": {"line": 0, "column": 0}, "url": url}]}).to_string();
            match cyc {
                0 => {
                    fs.nodes.insert(join(&dir, "idx.map"), FsNode::Text(sec("idx.map")));
                }
                1 => {
                    fs.nodes.insert(join(&dir, "idx.map"), FsNode::Text(sec("maps/b.map")));
                    fs.nodes.insert(join(&dir, "maps/b.map"), FsNode::Text(sec("../idx.map")));
                    fs.nodes.insert(join(&join(&dir, "maps"), "../idx.map"), FsNode::Text(sec("maps/b.map")));
                    fs.nodes.insert(join(&dir, "b.map"), FsNode::Text(sec("idx.map")));
                }
                _ => {
                    fs.nodes.insert(join(&dir, "idx.map"), FsNode::Text(sec("leaf.map")));
                    fs.nodes.insert(join(&dir, "leaf.map"), FsNode::Text(valid_map.clone()));
                }
            }
            source.push_str("\n//# sourceMappingURL=idx.map\n");
            ref_kind = "external-index-map-with-section-urls".into();
            map_class = ["index-self-cycle", "index-two-cycle", "index-acyclic"][cyc].into();
        }
        _ => {
            let url = format!("{}.map", "x".repeat(rng.range(300, 6000)));
            source.push_str(&format!("\n//# sourceMappingURL={}\n", url));
            ref_kind = "external-long-name".into();
        }
    }
    if !for_sweep && rng.chance(1, 5) {
        // comment form is its own dimension: the last line-comment reference becomes a block comment
        let pat = "\n//# sourceMappingURL=";
        if let Some(at) = source.rfind(pat) {
            let start = at + pat.len();
            let end = source[start..].find('\n').map(|n| start + n).unwrap_or(source.len());
            let mut url = source[start..end].to_string();
            // now and then nothing (or only blanks) follows the `=`
            if rng.chance(1, 6) {
                url = (*rng.pick(&["", " ", "\t ", "  "])).to_string();
                ref_kind.push_str("+blank");
            }
            if !url.contains("*/") {
                let block = match rng.below(6) {
                    0 => format!("/*# sourceMappingURL={}*/", url),
                    1 => format!("/*# sourceMappingURL={} */", url),
                    2 => format!("/*# sourceMappingURL={}\n*/", url),
                    3 => format!("/*# sourceMappingURL={}\n * generated by a bundler plugin\n */", url),
                    4 => format!("/*# sourceMappingURL= {} \t*/", url),
                    _ => format!("/*#\tsourceMappingURL={} */", url),
                };
                source.replace_range(at + 1..end, &block);
                ref_kind.push_str("+block-form");
            }
        }
    }
    if !for_sweep && rng.chance(1, 10) {
        // the reference in the middle of the file: a leading comment of the next token
        source.push_str("function after(a, b) { return a + b; }\n");
        ref_kind.push_str("+code-after");
    }
    Case13 {
        cfg,
        prng_seed: rng.below(1000) as u64,
        file,
        source,
        fs,
        faults: FaultPlan::clean(),
        tags: vec![format!("src:{skind}"), format!("file:{fshape}"), format!("ref:{ref_kind}"), format!("map:{map_class}"), format!("cfg:{cfg_kind}")],
        log_level: (*rng.pick(&["off", "off", "off", "error", "debug", "debug", "trace"])).to_string(),
        reenter: !for_sweep && rng.chance(1, 10),
        cwd_gone: !for_sweep && rng.chance(1, 10),
    }
}

trait Pipe: Sized {
    fn pipe<T>(self, f: impl FnOnce(Self) -> T) -> T {
        f(self)
    }
}
impl<T> Pipe for T {}

fn gen_faults(rng: &mut Rng) -> FaultPlan {
    let mut p = FaultPlan::default();
    p.default_chunk = *rng.pick(&[0, 0, 1, 2, 3, 7, 16, 64, 1024]);
    p.eintr_cap = 8;
    p.parent = match rng.below(12) {
        0 => ParentMode::ReturnNone,
        1 => ParentMode::ReturnEmpty,
        2 => ParentMode::ReturnUnrelated,
        3 | 4 => ParentMode::NodeDirname,
        _ => ParentMode::TraitDefault,
    };
    if rng.chance(1, 6) {
        // the i-th open of the call fails (the same path may open once and fail the next time)
        for _ in 0..rng.below(3) {
            p.opens.push(None);
        }
        p.opens.push(Some(*rng.pick(IoKind::all_open())));
    }
    // a multi-fault read schedule: faults biased to the first reads (JSON header), and to the tail
    let n_faults = rng.weighted(&[3, 4, 2, 1]);
    if n_faults > 0 {
        let horizon = *rng.pick(&[4, 16, 64, 400]);
        let mut reads: Vec<ReadAct> = (0..horizon).map(|_| ReadAct::Give(p.default_chunk)).collect();
        for _ in 0..n_faults {
            let i = match rng.below(3) {
                0 => rng.below(4.min(horizon)),
                1 => horizon - 1 - rng.below(3.min(horizon)),
                _ => rng.below(horizon),
            };
            reads[i] = match rng.below(10) {
                0..=3 => ReadAct::Err(IoKind::Interrupted),
                4 => ReadAct::Eof,
                5 => ReadAct::Give(1),
                _ => ReadAct::Err(*rng.pick(IoKind::all_read())),
            };
            // EINTR storms
            if rng.chance(1, 4) {
                for j in i..(i + rng.range(2, 12)).min(horizon) {
                    reads[j] = ReadAct::Err(IoKind::Interrupted);
                }
            }
        }
        p.reads = reads;
    }
    if rng.chance(1, 10) {
        // a persistently failing device: after k good reads every read() fails the same way, however
        // often the caller re-opens and retries
        let kinds = [IoKind::WouldBlock, IoKind::TimedOut, IoKind::Other, IoKind::UnexpectedEof, IoKind::InvalidData, IoKind::OutOfMemory];
        let k = *rng.pick(&kinds);
        let good = *rng.pick(&[0usize, 0, 0, 1, 2, 5]);
        let mut reads: Vec<ReadAct> = (0..good).map(|_| ReadAct::Give(p.default_chunk)).collect();
        reads.extend((0..600).map(|_| ReadAct::Err(k)));
        p.reads = reads;
    }
    if rng.chance(1, 6) {
        for _ in 0..rng.range(1, 3) {
            p.flips.push((rng.below(2000), rng.below(8) as u8));
        }
    }
    if rng.chance(1, 8) {
        p.truncate = Some(rng.below(1500));
    }
    if rng.chance(1, 6) {
        p.open_latency_ms = *rng.pick(&[5, 1500, 40_000]);
        p.read_latency_ms = *rng.pick(&[1, 700, 10_000]);
    }
    p
}

fn plan13(seed: u64, run: u64, tier: Tier) -> Plan13 {
    let mut rng = Rng::new(mix(mix(seed, 0xC13), run));
    // every 25th run is a sweep
    let sweep_every = 25;
    if run % sweep_every == 0 {
        let case = gen_case(&mut rng, tier, true);
        return Plan13 { mode: "sweep".into(), case, sweep_chunk: *rng.pick(&[0, 1, 7, 64]), sweep_seed: rng.next_u64() };
    }
    let mut case = gen_case(&mut rng, tier, false);
    case.faults = gen_faults(&mut rng);
    // known finding F14 (multi-byte white space as the operand of `delete`): one run in 64 carries it on purpose
    if run % 64 == 37 {
        case.source = jsgen::gen_unicode_space_after_delete(&mut rng);
        case.tags[0] = "src:unicode-space-after-delete".into();
    }
    Plan13 { mode: "single".into(), case, sweep_chunk: 0, sweep_seed: 0 }
}

struct CaseResult {
    outcome: Outcome,
    stats: crate::fsim::ReaderStats,
    viol: Vec<Violation>,
}

fn count_refs(src: &str) -> usize {
    src.matches("sourceMappingURL=").count()
}

fn run_case(c: &Case13) -> CaseResult {
    let mut viol = Vec::new();
    let cfg = match exec::make_config(&c.cfg, c.prng_seed) {
        Ok(cfg) => cfg,
        Err(o) => {
            let (msg, loc) = match &o {
                Outcome::Panic { msg, loc } => (msg.clone(), loc.clone()),
                _ => Default::default(),
            };
            viol.push(Violation::new("T1", format!("T1:panic:to_config:{loc}"), format!("to_config panicked at {loc}: {msg}; cfg={}", c.cfg)));
            return CaseResult { outcome: o, stats: Default::default(), viol };
        }
    };
    log::set_max_level(match c.log_level.as_str() {
        "error" => log::LevelFilter::Error,
        "debug" => log::LevelFilter::Debug,
        "trace" => log::LevelFilter::Trace,
        _ => log::LevelFilter::Off,
    });
    let saved_cwd = std::env::current_dir().ok();
    if c.cwd_gone {
        let d = std::env::temp_dir().join(format!("simrw-gone-{}", std::process::id()));
        if std::fs::create_dir_all(&d).is_ok() && std::env::set_current_dir(&d).is_ok() {
            let _ = std::fs::remove_dir(&d);
        }
    }
    let res = if c.reenter {
        // the host's reader calls back into the rewriter (another instance) before it answers
        let inner_cfg = exec::make_config(&exec::tracer_like_cfg(Some("inner"), true, true, "DEBUG", true), 7).ok();
        let inner_out: std::cell::RefCell<Option<Outcome>> = std::cell::RefCell::new(None);
        let r = {
            let io = &inner_out;
            let ic = &inner_cfg;
            let fs = &c.fs;
            exec::call_reentrant(
                &cfg,
                &c.source,
                &c.file,
                &c.fs,
                &c.faults,
                Box::new(move || {
                    if let Some(ic) = ic {
                        *io.borrow_mut() = Some(exec::call(ic, "function inner(a, b) { return a + b.trim(); }\n//# sourceMappingURL=inner.js.map\n", "/abs/inner/x.js", fs, &FaultPlan::clean()).outcome);
                    }
                }),
            )
        };
        if let Some(Outcome::Panic { msg, loc }) = inner_out.into_inner() {
            viol.push(Violation::new("T1", format!("T1:panic:nested:{loc}"), format!("a rewrite started from inside the file reader panicked at {loc}: {msg}; tags={:?}", c.tags)));
        }
        r
    } else {
        exec::call(&cfg, &c.source, &c.file, &c.fs, &c.faults)
    };
    log::set_max_level(log::LevelFilter::Off);
    if c.cwd_gone {
        if let Some(d) = &saved_cwd {
            let _ = std::env::set_current_dir(d);
        }
    }
    match &res.outcome {
        Outcome::Panic { msg, loc } => {
            viol.push(Violation::new(
                "T1",
                format!("T1:panic:{loc}"),
                format!("rewrite panicked at {loc}: {msg}; file={:?} tags={:?} faults={}", c.file.chars().take(60).collect::<String>(), c.tags, serde_json::to_string(&summarise_faults(&c.faults)).unwrap()),
            ));
        }
        Outcome::Err { msg } => {
            if msg.trim().is_empty() {
                viol.push(Violation::new("T2", "T2:empty-diagnostic", format!("error value carries no diagnostic; tags={:?}", c.tags)));
            }
        }
        Outcome::Ok { .. } => {}
    }
    // T3: bounded reader steps
    let s = &res.stats;
    let faults_total: usize = s.faults_fired.values().sum();
    if s.read_calls > s.bytes_served + faults_total + 16 {
        viol.push(Violation::new(
            "T3",
            "T3:unbounded-reads",
            format!("{} read() calls for {} bytes served and {} injected faults", s.read_calls, s.bytes_served, faults_total),
        ));
    }
    // an implementation may legitimately open more than one file per reference (e.g. sections of
    // an index map); only an unbounded number of opens is a liveness problem
    let refs = count_refs(&c.source).max(1);
    if s.opens.len() > 64 * refs {
        viol.push(Violation::new(
            "T3",
            "T3:unbounded-opens",
            format!("{} opens for {} reference comments: {:?}", s.opens.len(), refs, s.opens.iter().take(5).collect::<Vec<_>>()),
        ));
    }
    CaseResult { outcome: res.outcome, stats: res.stats, viol }
}

fn summarise_faults(f: &FaultPlan) -> Value {
    let mut acts: Vec<String> = Vec::new();
    for (i, r) in f.reads.iter().enumerate() {
        match r {
            ReadAct::Give(n) if *n == f.default_chunk => {}
            ReadAct::Give(n) => acts.push(format!("{i}:give{n}")),
            ReadAct::Err(k) => acts.push(format!("{i}:{:?}", k)),
            ReadAct::Eof => acts.push(format!("{i}:eof")),
        }
    }
    if acts.len() > 12 {
        let n = acts.len();
        acts.truncate(12);
        acts.push(format!("…{} more", n - 12));
    }
    json!({"parent": f.parent, "opens": f.opens, "chunk": f.default_chunk, "reads": acts, "flips": f.flips, "truncate": f.truncate})
}

fn bucket(i: usize, n: usize) -> &'static str {
    if n == 0 {
        return "-";
    }
    if i * 5 < n {
        "head"
    } else if i * 5 >= n * 4 {
        "tail"
    } else {
        "body"
    }
}

fn shape_of(c: &Case13, o: &Outcome, s: &crate::fsim::ReaderStats) -> u64 {
    let mut h = fnv64(c.tags.join("|").as_bytes());
    let n = c.faults.reads.len();
    for (i, r) in c.faults.reads.iter().enumerate() {
        match r {
            ReadAct::Err(k) => h = mix(h, mix(*k as u64 + 10, fnv64(bucket(i, n).as_bytes()))),
            ReadAct::Eof => h = mix(h, mix(99, fnv64(bucket(i, n).as_bytes()))),
            _ => {}
        }
    }
    h = mix(h, c.faults.parent as u64);
    h = mix(h, c.faults.opens.iter().flatten().map(|k| *k as u64 + 1).sum::<u64>());
    h = mix(h, (!c.faults.flips.is_empty()) as u64 + 2 * c.faults.truncate.is_some() as u64);
    h = mix(h, c.faults.default_chunk as u64);
    h = mix(h, fnv64(o.class().as_bytes()));
    h = mix(h, s.faults_fired.keys().map(|k| fnv64(k.as_bytes())).fold(0, |a, b| a ^ b));
    h
}

fn account(rep: &mut RunReport, c: &Case13, r: &CaseResult, nontrivial: bool) {
    let st = |rep: &mut RunReport, k: &str, n: u64| {
        *rep.stats.entry(k.to_string()).or_insert(0) += n;
    };
    for (k, n) in &r.stats.faults_fired {
        st(rep, &format!("fault:{k}"), *n as u64);
    }
    let cls = r.outcome.class();
    st(rep, &format!("outcome:{cls}"), 1);
    st(rep, "calls", 1);
    let fatal = r.stats.faults_fired.iter().any(|(k, _)| !(k == "read:short" || k == "read:Interrupted" || k == "parent:node-dirname"));
    let opened = !r.stats.opens.is_empty();
    if cls == "modified" && opened && fatal {
        st(rep, "probe:fallback-after-fatal-fault", 1);
    }
    if c.tags.iter().any(|t| t.starts_with("ref:inline-mutated") || t.starts_with("ref:inline-odd-url")) && opened {
        st(rep, "probe:data-url-decode-failed-then-path-branch", 1);
    }
    if r.stats.faults_fired.contains_key("parent:none") {
        st(rep, "probe:parent-returned-none", 1);
    }
    if c.tags.iter().any(|t| t == "map:index-map" || t == "map:index-map-nested") && cls == "modified" {
        st(rep, "probe:index-map-arm", 1);
    }
    if c.tags.iter().any(|t| t.starts_with("map:hermes")) && cls == "modified" {
        st(rep, "probe:hermes-arm", 1);
    }
    if cls == "cancelled" && !opened {
        st(rep, "probe:cancelled-reader-never-consulted", 1);
    }
    if cls == "notmodified" && !opened {
        st(rep, "probe:notmodified-reader-never-consulted", 1);
    }
    if r.stats.bytes_served > 100_000 {
        st(rep, "probe:oversized-body-read", 1);
    }
    if nontrivial {
        rep.shapes.push(shape_of(c, &r.outcome, &r.stats));
    }
    for t in &c.tags {
        rep.cells.push(format!("{t}>{cls}"));
    }
}

impl Engine for C13 {
    fn id(&self) -> &'static str {
        "C13"
    }
    fn level(&self) -> &'static str {
        "fault_enumeration"
    }
    fn runs(&self, tier: Tier) -> u64 {
        match tier {
            Tier::Quick => 4000,
            Tier::Thorough => 400_000,
        }
    }
    fn chunk(&self) -> u64 {
        50
    }
    fn evaluations_counter(&self) -> Option<&'static str> {
        Some("calls")
    }
    fn run_timeout(&self) -> std::time::Duration {
        std::time::Duration::from_secs(60)
    }
    fn plan(&self, seed: u64, run: u64, tier: Tier) -> Value {
        serde_json::to_value(plan13(seed, run, tier)).unwrap()
    }

    fn execute(&self, plan: &Value) -> RunReport {
        let plan: Plan13 = match serde_json::from_value(plan.clone()) {
            Ok(p) => p,
            Err(e) => {
                let mut r = RunReport::default();
                r.notes.push(format!("bad plan: {e}"));
                return r;
            }
        };
        exec::install_quiet_panic_hook();
        crate::c16::install_log_sink();
        let want_log = std::env::var("VERIF_LOG").is_ok();
        let mut rep = RunReport::default();
        let mut log: Vec<String> = Vec::new();
        if plan.mode == "single" {
            let r = run_case(&plan.case);
            let nontrivial = !plan.case.faults.is_clean() || plan.case.tags.iter().any(|t| t.starts_with("src:") && t != "src:valid");
            account(&mut rep, &plan.case, &r, nontrivial);
            log.push(format!(
                "#0 call file={:?} tags={:?} faults={} -> {} {:016x} opens={:?} reads={} bytes={} fired={:?}",
                plan.case.file.chars().take(40).collect::<String>(),
                plan.case.tags,
                summarise_faults(&plan.case.faults),
                r.outcome.class(),
                r.outcome.digest(),
                r.stats.opens.iter().map(|s| s.chars().take(40).collect::<String>()).collect::<Vec<_>>(),
                r.stats.read_calls,
                r.stats.bytes_served,
                r.stats.faults_fired
            ));
            if let Outcome::Err { msg } = &r.outcome {
                log.push(format!("   diagnostic: {}", msg.chars().take(200).collect::<String>()));
            }
            rep.violations = r.viol;
            rep.events = 1 + r.stats.read_calls as u64;
        } else {
            // sweep: fault-free reference execution first
            let mut base = plan.case.clone();
            base.faults = FaultPlan::default();
            base.faults.default_chunk = plan.sweep_chunk;
            let r0 = run_case(&base);
            account(&mut rep, &base, &r0, false);
            let n_reads = r0.stats.read_calls;
            let body = r0.stats.body_len;
            log.push(format!("#0 sweep reference: tags={:?} chunk={} -> {} reads={} body={} opens={:?}", base.tags, plan.sweep_chunk, r0.outcome.class(), n_reads, body, r0.stats.opens));
            let mut viol = r0.viol;
            let mut events = 1u64;
            let mut rng = Rng::new(plan.sweep_seed);
            let progress_file = std::env::var("VERIF_PROGRESS_FILE").ok();
            let mut try_one = |fp: FaultPlan, label: String, rep: &mut RunReport, viol: &mut Vec<Violation>, log: &mut Vec<String>| {
                let mut c = base.clone();
                c.faults = fp;
                if let Some(pf) = &progress_file {
                    let sub = Plan13 { mode: "single".into(), case: c.clone(), sweep_chunk: 0, sweep_seed: 0 };
                    let _ = std::fs::write(pf, serde_json::to_string(&sub).unwrap());
                }
                let r = run_case(&c);
                account(rep, &c, &r, true);
                log.push(format!("  {} -> {} {:016x} reads={} fired={:?}", label, r.outcome.class(), r.outcome.digest(), r.stats.read_calls, r.stats.faults_fired));
                for mut v in r.viol {
                    v.plan_override = Some(serde_json::to_value(Plan13 { mode: "single".into(), case: c.clone(), sweep_chunk: 0, sweep_seed: 0 }).unwrap());
                    viol.push(v);
                }
            };
            // (a) every read index x every fault kind (+EOF)
            let idxs: Vec<usize> = if n_reads <= 400 { (0..n_reads).collect() } else { (0..400).map(|i| i * n_reads / 400).collect() };
            for &i in &idxs {
                for k in IoKind::all_read() {
                    let mut fp = base.faults.clone();
                    fp.reads = vec![ReadAct::Give(plan.sweep_chunk); i];
                    fp.reads.push(ReadAct::Err(*k));
                    try_one(fp, format!("read[{i}]={:?}", k), &mut rep, &mut viol, &mut log);
                    events += 1;
                }
                let mut fp = base.faults.clone();
                fp.reads = vec![ReadAct::Give(plan.sweep_chunk); i];
                fp.reads.push(ReadAct::Eof);
                try_one(fp, format!("read[{i}]=EOF"), &mut rep, &mut viol, &mut log);
                events += 1;
            }
            // (b) every byte position: truncate there / flip a bit there
            let poss: Vec<usize> = if body <= 600 { (0..body).collect() } else { (0..600).map(|i| i * body / 600).collect() };
            for &p in &poss {
                let mut fp = base.faults.clone();
                fp.truncate = Some(p);
                try_one(fp, format!("truncate@{p}"), &mut rep, &mut viol, &mut log);
                let mut fp = base.faults.clone();
                fp.flips = vec![(p, rng.below(8) as u8)];
                try_one(fp, format!("flip@{p}"), &mut rep, &mut viol, &mut log);
                events += 2;
            }
            // (c) every open fault at every open index of the reference execution (and one past it),
            // every parent mode
            let n_opens = r0.stats.opens.len();
            for oi in 0..=n_opens {
                for k in IoKind::all_open() {
                    let mut fp = base.faults.clone();
                    fp.opens = vec![None; oi];
                    fp.opens.push(Some(*k));
                    try_one(fp, format!("open[{oi}]={:?}", k), &mut rep, &mut viol, &mut log);
                    events += 1;
                }
            }
            for pm in [ParentMode::ReturnNone, ParentMode::ReturnEmpty, ParentMode::ReturnUnrelated, ParentMode::NodeDirname] {
                let mut fp = base.faults.clone();
                fp.parent = pm;
                try_one(fp, format!("parent={:?}", pm), &mut rep, &mut viol, &mut log);
                events += 1;
            }
            *rep.stats.entry("sweeps".into()).or_insert(0) += 1;
            *rep.stats.entry("sweep-single-fault-points".into()).or_insert(0) += events - 1;
            let mut seen = BTreeSet::new();
            viol.retain(|v| seen.insert(v.key.clone()));
            rep.violations = viol;
            rep.events = events;
        }
        rep.log_digest = fnv64(log.join("\n").as_bytes());
        if want_log {
            rep.log = Some(log);
        }
        rep
    }

    fn shrink(&self, plan: &Value) -> Vec<Value> {
        let p: Plan13 = match serde_json::from_value(plan.clone()) {
            Ok(p) => p,
            Err(_) => return vec![],
        };
        if p.mode != "single" {
            return vec![];
        }
        let mut out: Vec<Plan13> = Vec::new();
        let c = &p.case;
        // simpler faults
        if !c.faults.is_clean() {
            let mut q = p.clone();
            q.case.faults = FaultPlan::clean();
            out.push(q);
        }
        if !c.faults.reads.is_empty() {
            let mut q = p.clone();
            q.case.faults.reads.clear();
            out.push(q);
            for i in 0..c.faults.reads.len().min(40) {
                if !matches!(c.faults.reads[i], ReadAct::Give(_)) {
                    let mut q = p.clone();
                    q.case.faults.reads[i] = ReadAct::Give(c.faults.default_chunk);
                    out.push(q);
                }
            }
        }
        if !c.faults.flips.is_empty() {
            let mut q = p.clone();
            q.case.faults.flips.clear();
            out.push(q);
        }
        if c.faults.truncate.is_some() {
            let mut q = p.clone();
            q.case.faults.truncate = None;
            out.push(q);
        }
        if !c.faults.opens.is_empty() {
            let mut q = p.clone();
            q.case.faults.opens.clear();
            out.push(q);
        }
        if c.faults.parent != ParentMode::TraitDefault {
            let mut q = p.clone();
            q.case.faults.parent = ParentMode::TraitDefault;
            out.push(q);
        }
        if c.faults.default_chunk != 0 {
            let mut q = p.clone();
            q.case.faults.default_chunk = 0;
            out.push(q);
        }
        // simpler configuration
        let plain = exec::tracer_like_cfg(Some("test"), true, false, "OFF", false);
        if c.cfg != plain {
            let mut q = p.clone();
            q.case.cfg = plain;
            out.push(q);
        }
        // simpler file name
        if c.file != "/abs/dir/a.js" {
            let mut q = p.clone();
            q.case.file = "/abs/dir/a.js".into();
            out.push(q);
        }
        if c.log_level != "off" && !c.log_level.is_empty() {
            let mut q = p.clone();
            q.case.log_level = "off".into();
            out.push(q);
        }
        // smaller source: drop line ranges (halves, quarters, single lines)
        let lines: Vec<&str> = c.source.split('\n').collect();
        let n = lines.len();
        if n > 1 {
            let mut spans: Vec<(usize, usize)> = Vec::new();
            let mut w = n / 2;
            while w >= 1 {
                let mut a = 0;
                while a < n {
                    spans.push((a, (a + w).min(n)));
                    a += w;
                }
                if w == 1 {
                    break;
                }
                w /= 2;
            }
            for (a, b) in spans.into_iter().take(200) {
                let mut q = p.clone();
                let kept: Vec<&str> = lines.iter().enumerate().filter(|(i, _)| *i < a || *i >= b).map(|(_, l)| *l).collect();
                q.case.source = kept.join("\n");
                out.push(q);
            }
        }
        // drop fs nodes
        for k in c.fs.nodes.keys() {
            let mut q = p.clone();
            q.case.fs.nodes.remove(k);
            out.push(q);
        }
        out.into_iter().map(|q| serde_json::to_value(q).unwrap()).collect()
    }

    fn summarise(&self, plan: &Value) -> Value {
        let p: Plan13 = match serde_json::from_value(plan.clone()) {
            Ok(p) => p,
            Err(_) => return Value::Null,
        };
        json!({
            "mode": p.mode,
            "file": p.case.file.chars().take(80).collect::<String>(),
            "tags": p.case.tags,
            "source_bytes": p.case.source.len(),
            "source_tail": p.case.source.chars().rev().take(120).collect::<String>().chars().rev().collect::<String>(),
            "fs": p.case.fs.nodes.keys().map(|k| k.chars().take(60).collect::<String>()).collect::<Vec<_>>(),
            "faults": summarise_faults(&p.case.faults),
            "log_level": p.case.log_level,
            "sweep_chunk": p.sweep_chunk,
        })
    }

    fn rule(&self) -> String {
        "a case is one rewrite call (to_config -> rewrite_js -> print_js -> get_metrics) under catch_unwind with a simulated reader; 'single' runs draw (configuration, process log level, file-name shape, source kind, reference kind, map body class, multi-fault schedule incl. the i-th open failing); every 25th run is a sweep that re-executes one call once per single-fault point of its fault-free execution: (read index x 7 error kinds + EOF), (byte position x {truncate, bit flip}), every open error, every parent() mode. evaluations counts rewrite calls (runs is the number of runs; a sweep run holds ~1 500 calls). distinct = hash of (tags, fault kinds with head/body/tail position bucket, parent mode, chunk, fired fault set, outcome class); non-trivial = at least one injected fault or a non-valid source".into()
    }

    fn components(&self) -> Value {
        json!({
            "real": ["RewriterConfig::to_config", "generate_prefix_stmts", "rewrite_js", "print_js", "get_metrics", "extract_source_map", "chain_source_maps", "FileReader::parent (trait default)", "swc parser/codegen", "sourcemap crate decoder (StripHeaderReader, serde_json reader)", "base64"],
            "stub": ["Rewriter::new/rewrite JsValue glue", "WasmFileReader (SimFileReader implements the same trait adversarially)", "DefaultFileReader::read (real disk)", "console_error_panic_hook"]
        })
    }

    fn assumptions(&self) -> Vec<String> {
        vec![
            "consecutive EINTR are capped at 8 so that faults stop; bounded liveness is stated in reader steps (read calls <= bytes served + faults + 16)".into(),
            "the wall-clock watchdog (60 s without progress of a worker) is a backstop only; a hit must reproduce in a fresh process".into(),
            "pure nesting-depth exhaustion is out of scope (nesting capped at 30); allocation failure is not injected (it aborts)".into(),
            "input text is valid UTF-8 (the API takes a Rust String / JS string)".into(),
        ]
    }

    fn expected_probes(&self) -> Vec<&'static str> {
        vec![
            "probe:fallback-after-fatal-fault",
            "probe:data-url-decode-failed-then-path-branch",
            "probe:parent-returned-none",
            "probe:index-map-arm",
            "probe:cancelled-reader-never-consulted",
            "probe:notmodified-reader-never-consulted",
        ]
    }
}
