//! C16 — rewriting is deterministic and independent of earlier calls.
//! Seeded call histories over several rewriter instances / files / sources, with thread hops,
//! log-level flips, controlled PRNG and benign reader faults; memo-model oracle.

use crate::driver::{Engine, RunReport, Tier, Violation};
use crate::exec::{self, Outcome};
use crate::fsim::{FaultPlan, FsNode, FsSpec, IoKind, ReadAct};
use crate::jsgen::{self, GenOpts};
use crate::mapgen;
use crate::prng::{b64_encode, fnv64, mix, Rng};
use native_iast_rewriter::verif_hooks as vh;
use serde::{Deserialize, Serialize};
use serde_json::{json, Value};
use std::collections::BTreeMap;
use std::io::Write;
use std::process::{Command, Stdio};

#[derive(Serialize, Deserialize, Clone, Debug)]
pub struct RwSpec {
    pub cfg: Value,
    pub prng_seed: u64,
}

#[derive(Serialize, Deserialize, Clone, Debug)]
pub struct Src {
    pub kind: String,
    pub text: String,
}

#[derive(Serialize, Deserialize, Clone, Debug)]
#[serde(tag = "op")]
pub enum Op {
    /// call on the long-lived rewriter r; reads chunked by `chunk` bytes, EINTR every `eintr` reads
    Call {
        r: usize,
        f: usize,
        s: usize,
        chunk: usize,
        eintr: usize,
        /// simulated latency per open / read in ms (slow file system): benign
        #[serde(default)]
        lat: u64,
    },
    /// simulated time passes between calls
    Idle { ms: u64 },
    /// the same triple k more times in a row
    Repeat { r: usize, f: usize, s: usize, k: usize },
    /// brand-new rewriter from the same configuration and PRNG seed, one call, dropped
    Fresh { r: usize, f: usize, s: usize },
    /// the same as Fresh but on a freshly spawned OS thread (joined before anything else happens)
    Hop { r: usize, f: usize, s: usize },
    /// a call whose reader fails for good part-way (fatal fault): its own result is only compared
    /// with equally faulted calls; what matters is that it leaves nothing behind for later calls
    FaultCall { r: usize, f: usize, s: usize, fault: FaultPlan },
    SetLog { level: String },
    /// drop rewriter r and construct it again (same configuration, same PRNG seed)
    Renew { r: usize },
    /// a call during which the host's logger (debug level) re-enters the rewriter at its k-th record
    LogReenter { r: usize, f: usize, s: usize, at: u32 },
    /// a call on rewriter r whose file reader, at its first open, re-enters: a call on ANOTHER rewriter
    /// r2 runs to completion inside it (a require hook firing while the host loads the map file)
    Nested { r: usize, f: usize, s: usize, r2: usize, f2: usize, s2: usize },
}

#[derive(Serialize, Deserialize, Clone, Debug)]
pub struct Plan16 {
    pub rewriters: Vec<RwSpec>,
    pub files: Vec<String>,
    pub sources: Vec<Src>,
    pub fs: FsSpec,
    pub ops: Vec<Op>,
    pub oneshot: bool,
}

pub struct C16;

const FILES: &[&str] = &[
    // names without a parent folder are legal inputs too
    "",
    "/",
    "/app/src/a.js",
    "/app/src/b.js",
    "/app/lib/c.js",
    "rel/d.js",
    "e.js",
    "/app/src/n\u{e4}me \u{fc}.js",
    "/app/issue#12/what?.js",
    "/app/src/gen\\util.js",
    "file:///app/src/m.mjs",
    // the other path style (a Windows host hands such names to the wasm build)
    "C:\\app\\dist\\index.js",
    "src\\win\\rel.js",
    "C:\\app/mixed\\style.js",
    // two names that differ only in letter case (different files on a case-sensitive file system)
    "/app/src/Settings.js",
    "/app/src/settings.js",
];

fn dir_of(f: &str) -> String {
    match f.rfind('/') {
        Some(0) => "/".into(),
        Some(i) => f[..i].to_string(),
        None => "".into(),
    }
}

fn join(dir: &str, rel: &str) -> String {
    if dir.is_empty() {
        rel.to_string()
    } else if dir.ends_with('/') {
        format!("{dir}{rel}")
    } else {
        format!("{dir}/{rel}")
    }
}

fn gen_cfg(rng: &mut Rng, explicit_prefix: Option<&str>) -> Value {
    let verbosity = *rng.pick(&["OFF", "INFORMATION", "DEBUG", "MANDATORY", "debug"]);
    let mut cfg = exec::tracer_like_cfg(explicit_prefix, rng.chance(1, 2), rng.chance(1, 2), verbosity, rng.chance(2, 3));
    match *rng.pick(&[0usize, 1, 2, 2, 3, 4, 4, 5, 6, 7]) {
        0 => {
            // only the + operator
            cfg["csiMethods"] = json!([{"src": "plusOperator", "operator": true}]);
        }
        1 => {
            // renamed destinations
            cfg["csiMethods"] = json!([
                {"src": "plusOperator", "dst": "plus", "operator": true},
                {"src": "tplOperator", "dst": "tpl", "operator": true},
                {"src": "trim"}, {"src": "concat", "dst": "cc"}
            ]);
        }
        3 => {
            // the same src list as the tracer-like configuration, other destination names
            if let Some(ms) = cfg["csiMethods"].as_array_mut() {
                for m in ms.iter_mut() {
                    if m["src"] == "trim" || m["src"] == "plusOperator" || m["src"] == "slice" {
                        let newdst = format!("{}Renamed", m["src"].as_str().unwrap_or("x"));
                        m["dst"] = Value::from(newdst);
                    }
                }
            }
        }
        4 => {
            // a src listed more than once (merged configuration lists): same flag, same or another dst
            if let Some(ms) = cfg["csiMethods"].as_array_mut() {
                ms.push(json!({"src": "trim"}));
                ms.push(json!({"src": "concat", "dst": "stringConcatAgain"}));
                ms.insert(1, json!({"src": "plusOperator", "operator": true}));
                ms.push(json!({"src": "substring", "dst": "stringSubstring"}));
                // ... and repeated in the middle of the list, with another destination (other methods follow)
                if let Some(i) = ms.iter().position(|m| m["src"] == "trim") {
                    ms.insert(i + 1, json!({"src": "trim", "dst": "trimOfAnotherProduct"}));
                }
                if let Some(i) = ms.iter().position(|m| m["src"] == "substring") {
                    ms.insert(i + 1, json!({"src": "substring", "dst": "substringOfAnotherProduct"}));
                }
            }
        }
        5 => {
            // string methods only: no operator is rewritten
            cfg["csiMethods"] = json!([{"src": "trim"}, {"src": "concat"}, {"src": "substring", "dst": "stringSubstring"}]);
        }
        2 => {
            // method allowed without callee
            cfg["csiMethods"].as_array_mut().unwrap().push(json!({"src": "fn0", "allowedWithoutCallee": true}));
        }
        _ => {}
    }
    cfg
}

fn plan16(seed: u64, run: u64, tier: Tier) -> Plan16 {
    let mut rng = Rng::new(mix(mix(seed, 0xC16), run));
    let n_rw = rng.range(1, 4);
    let mut rewriters: Vec<RwSpec> = Vec::new();
    // valid identifier parts, including non-ASCII letters
    let prefixes = ["test", "abcxyz", "p_1", "a\u{f1}b", "$x"];
    for i in 0..n_rw {
        let explicit = if rng.chance(1, 2) { Some(prefixes[i % prefixes.len()]) } else { None };
        let cfg = if i > 0 && rng.chance(1, 4) {
            // same configuration as rewriter 0: two instances with one configuration
            rewriters[0].cfg.clone()
        } else {
            gen_cfg(&mut rng, explicit)
        };
        rewriters.push(RwSpec { cfg, prng_seed: rng.next_u64() % 1000 });
    }
    let n_files = rng.range(2, FILES.len());
    let mut files: Vec<String> = Vec::new();
    let off = rng.below(FILES.len());
    for i in 0..n_files {
        files.push(FILES[(off + i) % FILES.len()].to_string());
    }
    // file system: one external map per directory of the pool
    let mut fs = FsSpec::default();
    let n_src = rng.range(3, 8);
    let mut sources: Vec<Src> = Vec::new();
    let big = tier == Tier::Thorough && rng.chance(1, 10);
    for si in 0..n_src {
        let mut o = GenOpts::small();
        o.items = if big { rng.range(3, 8) } else { rng.range(1, 3) };
        o.stmts = rng.range(2, 5);
        o.depth = rng.range(1, 3);
        o.module = rng.chance(1, 4);
        o.strict = rng.chance(1, 3);
        o.comments = rng.chance(1, 2);
        o.crlf = rng.chance(1, 8);
        o.unicode = rng.chance(1, 4);
        // (a file with tens of thousands of literals is expensive: one run in eight may have one)
        let kind = rng.weighted(&[8, 3, 2, 2, 3, 1, 1, 2, 1, 2, if run % 8 == 5 && si == 0 { 12 } else { 0 }, 1, 1]);
        let (kind_s, mut text) = match kind {
            11 => (
                // calls of GLOBAL functions named like configured methods (nothing declares them here)
                "bare-calls",
                "function usesGlobals(a, b) {\n  return fn0(a + b) + fn0(a) + trim(b) + a.trim().concat(b);\n}\nmodule.exports = { usesGlobals };\n".to_string(),
            ),
            12 => (
                // a polyfill-like module: only declares functions named like configured methods (not modified)
                "declares-only",
                "function fn0(x) { return x; }\nfunction trim(x) { return x; }\nvar concat = function (x) { return x; };\nmodule.exports = { fn0, trim, concat };\n".to_string(),
            ),
            10 => {
                let n = rng.range(26_000, 34_000);
                ("huge-literals", jsgen::gen_many_literals(&mut rng, n))
            }
            9 => {
                let n = *rng.pick(&[64usize, 65, 100, 128, 255, 256, 257, 511, 512, 513, 600, 1024]);
                ("repeat", jsgen::gen_repeat(&mut rng, n))
            }
            8 => {
                let n = rng.range(1, 5);
                ("module", jsgen::gen_module(&mut rng, n))
            }
            7 => {
                let n = rng.range(1, 4);
                ("corpus", jsgen::gen_corpus(&mut rng, n))
            }
            6 => {
                let n = *rng.pick(jsgen::BOUNDARY);
                ("wide", jsgen::gen_wide(&mut rng, n))
            }
            5 => {
                let n = rng.range(200, 420);
                ("many-literals", jsgen::gen_many_literals(&mut rng, n))
            }
            4 => {
                let n = rng.range(1, 6);
                ("zoo", jsgen::gen_zoo(&mut rng, n))
            }
            0 => ("modified", jsgen::gen_program(&mut rng, o).0),
            1 => ("plain", jsgen::gen_plain(&mut rng, o)),
            2 => {
                let (p, _) = jsgen::gen_program(&mut rng, o);
                let t = match rng.below(3) {
                    0 => format!("{}\nfunction broken( {{ return 1 +; }}\n", p),
                    1 => jsgen::mutate_tokens(&mut rng, &p, 3),
                    _ => format!("{}\nlet dup = 1; let dup = 2;\n", p),
                };
                ("syntaxish", t)
            }
            _ => {
                let (p, _) = jsgen::gen_program(&mut rng, o);
                let pre = *rng.pick(&prefixes);
                let t = format!(
                    "{}\nfunction clash(a, b) {{\n  let __datadog_{}_x = a + b;\n  return __datadog_{}_x + a;\n}}\n",
                    p, pre, pre
                );
                ("cancelled", t)
            }
        };
        // source-map reference
        let mut kind_full = kind_s.to_string();
        match rng.below(10) {
            0 | 1 => {
                let shape = mapgen::gen_shape(&mut rng);
                let m = mapgen::gen_orig_map(&mut rng, &text, &shape);
                let mj = m.to_json();
                // a twin: the same program with an inline map of the same length that differs in one
                // character in the middle of its mappings (a rebuild that shifted one column)
                if rng.chance(1, 2) {
                    if let (Some(a), Some(b)) = (mj.find("\"mappings\":\""), mj.rfind('"')) {
                        let lo = a + 12;
                        if b > lo + 8 {
                            let mut bytes = mj.clone().into_bytes();
                            let mid = lo + (b - lo) / 2;
                            if let Some(pos) = (mid..b).find(|i| matches!(bytes[*i], b'A' | b'C' | b'E' | b'G' | b'I' | b'K' | b'M' | b'O' | b'Q' | b'S')) {
                                bytes[pos] = if bytes[pos] == b'C' { b'E' } else { b'C' };
                                let twin_json = String::from_utf8(bytes).unwrap_or_default();
                                let twin = format!("{}\n//# sourceMappingURL=data:application/json;base64,{}\n", text, b64_encode(twin_json.as_bytes()));
                                sources.push(Src { kind: format!("{}+inline-twin", kind_s), text: twin });
                            }
                        }
                    }
                }
                text.push_str(&format!("\n//# sourceMappingURL=data:application/json;base64,{}\n", b64_encode(mj.as_bytes())));
                kind_full.push_str("+inline");
            }
            2 | 3 => {
                // the same relative name resolves to a *different* map in every directory
                let rel = if rng.chance(1, 2) { format!("maps/s{}.js.map", si) } else { "index.js.map".to_string() };
                let mut dirs: Vec<String> = files.iter().map(|f| dir_of(f)).collect();
                dirs.sort();
                dirs.dedup();
                for d in &dirs {
                    let shape = mapgen::gen_shape(&mut rng);
                    let m = mapgen::gen_orig_map(&mut rng, &text, &shape);
                    fs.nodes.insert(join(d, &rel), FsNode::Text(m.to_json()));
                }
                text.push_str(&format!("\n//# sourceMappingURL={}\n", rel));
                kind_full.push_str("+external");
            }
            4 => {
                text.push_str("\n//# sourceMappingURL=missing/nowhere.js.map\n");
                kind_full.push_str("+missing");
            }
            5 => {
                if rng.chance(1, 2) {
                    // F2 scenario: several *trailing* references (same-line comments)
                    let shape = mapgen::gen_shape(&mut rng);
                    let m1 = mapgen::gen_orig_map(&mut rng, &text, &shape);
                    let m2 = mapgen::gen_orig_map(&mut rng, &text, &shape);
                    for f in &files {
                        fs.nodes.insert(join(&dir_of(f), "maps/one.map"), FsNode::Text(m1.to_json()));
                        fs.nodes.insert(join(&dir_of(f), "maps/two.map"), FsNode::Text(m2.to_json()));
                    }
                    text.push_str("\nfn0(1); //# sourceMappingURL=maps/one.map\nfn0(2); //# sourceMappingURL=maps/two.map\n");
                    kind_full.push_str("+multi-trailing-ref");
                }
            }
            _ => {}
        }
        sources.push(Src { kind: kind_full, text });
    }
    // operations
    let n_ops = match tier {
        Tier::Quick => rng.range(10, 40),
        Tier::Thorough => rng.range(10, 60),
    };
    let mut ops = Vec::new();
    let mut last: Option<(usize, usize, usize)> = None;
    for _ in 0..n_ops {
        let r = rng.below(n_rw);
        let f = rng.below(files.len());
        let s = rng.below(sources.len());
        // bias towards interesting relations with the previous call
        let (r, f, s) = match (last, rng.below(8)) {
            (Some((lr, lf, _)), 0) => (lr, lf, s),          // same file, other content
            (Some((lr, _, ls)), 1) => (lr, f, ls),          // same content, other file
            (Some((_, lf, ls)), 2) => (r, lf, ls),          // other rewriter, same call
            (Some((lr, lf, ls)), 3) => (lr, lf, ls),        // exact repeat
            _ => (r, f, s),
        };
        let k = rng.weighted(&[12, 3, 3, 2, 2, 1, 2, 1, if n_rw > 1 { 1 } else { 0 }, 1]);
        let op = match k {
            9 => Op::LogReenter { r, f, s, at: rng.range(1, 6) as u32 },
            8 => {
                // the outer source should make the reader open something
                let ext: Vec<usize> = (0..sources.len()).filter(|i| sources[*i].kind.contains("external") || sources[*i].kind.contains("missing")).collect();
                let so = if ext.is_empty() { s } else { ext[rng.below(ext.len())] };
                let r2 = (r + 1 + rng.below(n_rw - 1)) % n_rw;
                Op::Nested { r, f, s: so, r2, f2: rng.below(files.len()), s2: rng.below(sources.len()) }
            }
            7 => Op::Idle { ms: *rng.pick(&[1, 1000, 61_000, 3_600_000, 86_400_000 * 8]) },
            6 => {
                let mut fp = FaultPlan::default();
                match rng.below(4) {
                    0 => fp.opens = vec![Some(*rng.pick(IoKind::all_open()))],
                    1 => {
                        // fails after some bytes were delivered
                        fp.default_chunk = *rng.pick(&[1, 8, 40, 64]);
                        let n = rng.range(1, 6);
                        fp.reads = vec![ReadAct::Give(fp.default_chunk); n];
                        fp.reads.push(ReadAct::Err(*rng.pick(&[IoKind::Other, IoKind::UnexpectedEof, IoKind::TimedOut, IoKind::InvalidData])));
                    }
                    2 => fp.truncate = Some(rng.range(1, 200)),
                    _ => fp.flips = vec![(rng.below(120), rng.below(8) as u8)],
                }
                Op::FaultCall { r, f, s, fault: fp }
            }
            0 => Op::Call {
                r,
                f,
                s,
                chunk: *rng.pick(&[0, 0, 1, 2, 7, 64, 4096]),
                eintr: *rng.pick(&[0, 0, 0, 1, 2, 5]),
                lat: *rng.pick(&[0, 0, 0, 0, 3, 900, 2500, 70_000]),
            },
            1 => Op::Repeat { r, f, s, k: rng.range(2, 8) },
            2 => Op::Fresh { r, f, s },
            3 => Op::Hop { r, f, s },
            4 => Op::SetLog { level: rng.pick(&["off", "error", "info", "debug", "trace"]).to_string() },
            _ => Op::Renew { r },
        };
        if let Op::Call { r, f, s, .. } | Op::Repeat { r, f, s, .. } | Op::Fresh { r, f, s } | Op::Hop { r, f, s } | Op::FaultCall { r, f, s, .. } = &op {
            last = Some((*r, *f, *s));
        }
        ops.push(op);
    }
    // round r - two appended scenarios (no draw from the main stream; own rewriter appended after the others):
    //  * a family of twelve to twenty small files, each with its OWN inline original map, rewritten in a row with
    //    chaining on and then revisited (a bounded per-thread cache of decoded maps - or of anything else keyed by
    //    what these files have in common - meets its eviction path; ordinary worlds have at most eight sources);
    //  * layout twins: texts of exactly the same byte length, with the same literals, whose line breaks sit at
    //    different places, with the literal report on - revisited on the thread and evaluated on a fresh thread
    //    (what is derived from one text's layout must not be reused for another text of the same length)
    let mut side = rng.side(0xC16_52);
    if run % 6 == 1 {
        let r = rewriters.len();
        rewriters.push(RwSpec { cfg: exec::tracer_like_cfg(Some("fam"), true, false, "OFF", false), prng_seed: 7 });
        let n = side.range(12, 20);
        let first = sources.len();
        for i in 0..n {
            let text = format!("function chunk{}(a, b) {{\n  const v = a + b;\n  return `${{v}}-{}`;\n}}\nmodule.exports = chunk{};\n", i, i, i);
            let mj = format!("{{\"version\":3,\"file\":\"chunk_{}.js\",\"sources\":[\"chunk_{}.ts\"],\"names\":[],\"mappings\":\"{}\"}}", i, i, ["AAAA;AACA;AACA;AACA;AACA", "AAEA;AACA;AAEA;AACA;AACA", "AAAA;AAGA;AACA;AACA;AAEA"][i % 3]);
            sources.push(Src { kind: "modified+inline+family".into(), text: format!("{}//# sourceMappingURL=data:application/json;base64,{}\n", text, b64_encode(mj.as_bytes())) });
        }
        let f = side.below(files.len());
        for i in 0..n {
            ops.push(Op::Call { r, f, s: first + i, chunk: 0, eintr: 0, lat: 0 });
        }
        // revisit: the oldest ones first, then one in the middle, then the oldest again
        for i in [0usize, 1, n / 2, 0, n - 1, 2] {
            ops.push(Op::Call { r, f, s: first + i, chunk: 0, eintr: 0, lat: 0 });
        }
    }
    if run % 6 == 4 {
        let r = rewriters.len();
        rewriters.push(RwSpec { cfg: exec::tracer_like_cfg(Some("twin"), false, false, "OFF", true), prng_seed: 7 });
        let stmts = ["const first = 'the first literal of the layout twins';", "const sum = a + b;", "const second = 'another literal, reported with its position';", "const third = `tpl ${a} end` + 'third literal of the twins';", "return first + sum + second + third;"];
        let first = sources.len();
        let k = stmts.len();
        for lay in 0..k {
            // exactly one line break inside the body, after statement `lay`; blanks elsewhere: equal byte lengths
            let mut t = String::from("function twins(a, b) { ");
            for (i, st) in stmts.iter().enumerate() {
                t.push_str(st);
                t.push(if i == lay { '\n' } else { ' ' });
            }
            t.push_str("}\nmodule.exports = twins;\n");
            sources.push(Src { kind: "modified+layout-twin".into(), text: t });
        }
        let f = side.below(files.len());
        let order: Vec<usize> = (0..k).map(|i| (i + side.below(k)) % k).collect();
        for &i in order.iter().chain([0usize, 1, 2, 3, 4].iter()) {
            ops.push(Op::Call { r, f, s: first + i, chunk: 0, eintr: 0, lat: 0 });
        }
        for i in [1usize, 3, 0] {
            ops.push(Op::Hop { r, f, s: first + i });
        }
    }
    // round s - big files (>= 32 KiB: a size past which a rewriter might take another path) through two rewriters
    // with disjoint method sets, literal report off; in one order here, in the other order in another run, and in
    // sorted order in the fresh process (what the first big file of a process leaves behind must not decide the others)
    if run % 12 == 0 || run % 12 == 8 {
        let ra = rewriters.len();
        rewriters.push(RwSpec { cfg: json!({"chainSourceMap": false, "comments": false, "localVarPrefix": "biga", "telemetryVerbosity": "OFF", "literals": false, "csiMethods": [{"src": "substring"}]}), prng_seed: 7 });
        rewriters.push(RwSpec { cfg: json!({"chainSourceMap": false, "comments": false, "localVarPrefix": "bigb", "telemetryVerbosity": "OFF", "literals": false, "csiMethods": [{"src": "plusOperator", "operator": true}]}), prng_seed: 7 });
        let filler: String = (0..(1400 + side.below(600))).map(|i| format!("var filler{} = {};\n", i, i)).collect();
        let sa = sources.len();
        sources.push(Src { kind: "modified+big-substring-only".into(), text: format!("{}function bigA(a) {{ return a.substring(1); }}\n", filler) });
        sources.push(Src { kind: "modified+big-plus-only".into(), text: format!("{}function bigB(a, b) {{ const r = a - b; return a + b; }}\n", filler) });
        let f = side.below(files.len());
        let order = if run % 12 == 0 { [(ra, sa), (ra + 1, sa + 1)] } else { [(ra + 1, sa + 1), (ra, sa)] };
        for (r, s) in order.iter().chain(order.iter()) {
            ops.push(Op::Call { r: *r, f, s: *s, chunk: 0, eintr: 0, lat: 0 });
        }
    }
    let oneshot = match tier {
        Tier::Quick => run % 4 == 0,
        Tier::Thorough => true,
    };
    Plan16 { rewriters, files, sources, fs, ops, oneshot }
}

fn benign_plan(chunk: usize, eintr: usize, lat: u64) -> FaultPlan {
    let mut p = FaultPlan::default();
    p.default_chunk = chunk;
    p.open_latency_ms = lat;
    p.read_latency_ms = lat;
    // a slow reader is also one during which the host gets to run other things: it re-enters
    p.reenter = lat == 900;
    if eintr > 0 {
        // an EINTR before every `eintr`-th delivery, for the first 4096 read calls
        let mut reads = Vec::new();
        for i in 0..4096 {
            if i % (eintr + 1) == 0 {
                reads.push(ReadAct::Err(IoKind::Interrupted));
            } else {
                reads.push(ReadAct::Give(chunk));
            }
        }
        p.reads = reads;
    }
    p
}

thread_local! {
    /// armed by `LogReenter`: at the k-th record the sink handles, the host's logger re-enters the
    /// rewriter (a logger that requires a module - which the require hook rewrites - while it formats)
    static LOG_REENTER: std::cell::RefCell<Option<(u32, crate::fsim::FsSpec)>> = std::cell::RefCell::new(None);
}
pub static LOG_REENTRIES: std::sync::atomic::AtomicU64 = std::sync::atomic::AtomicU64::new(0);

struct LogSink;
static LOG_RECORDS: std::sync::atomic::AtomicU64 = std::sync::atomic::AtomicU64::new(0);
static LOG_BYTES: std::sync::atomic::AtomicU64 = std::sync::atomic::AtomicU64::new(0);
impl log::Log for LogSink {
    fn enabled(&self, m: &log::Metadata) -> bool {
        m.level() <= log::max_level()
    }
    fn log(&self, r: &log::Record) {
        if self.enabled(r.metadata()) {
            // format the arguments, as the tracer's sink would
            let s = format!("{}", r.args());
            LOG_RECORDS.fetch_add(1, std::sync::atomic::Ordering::Relaxed);
            LOG_BYTES.fetch_add(s.len() as u64, std::sync::atomic::Ordering::Relaxed);
            let fire = LOG_REENTER.with(|c| {
                let mut c = c.borrow_mut();
                match c.as_mut() {
                    Some((k, _)) if *k <= 1 => c.take().map(|x| x.1),
                    Some((k, _)) => {
                        *k -= 1;
                        None
                    }
                    None => None,
                }
            });
            if let Some(fs) = fire {
                LOG_REENTRIES.fetch_add(1, std::sync::atomic::Ordering::Relaxed);
                exec::nested_rewrite(&fs);
            }
        }
    }
    fn flush(&self) {}
}
static SINK: LogSink = LogSink;

pub fn install_log_sink() {
    let _ = log::set_logger(&SINK);
    log::set_max_level(log::LevelFilter::Off);
}

fn level_of(s: &str) -> log::LevelFilter {
    match s {
        "error" => log::LevelFilter::Error,
        "info" => log::LevelFilter::Info,
        "debug" => log::LevelFilter::Debug,
        "trace" => log::LevelFilter::Trace,
        _ => log::LevelFilter::Off,
    }
}

fn first_diff(a: &Outcome, b: &Outcome) -> String {
    let sa = serde_json::to_string(a).unwrap();
    let sb = serde_json::to_string(b).unwrap();
    let n = sa.bytes().zip(sb.bytes()).take_while(|(x, y)| x == y).count();
    let lo = n.saturating_sub(40);
    let cut = |s: &str| -> String {
        let mut lo2 = lo;
        while lo2 > 0 && !s.is_char_boundary(lo2) {
            lo2 -= 1;
        }
        s[lo2..].chars().take(120).collect()
    };
    format!("first difference at byte {} of the canonical outcome: …{}… vs …{}…", n, cut(&sa), cut(&sb))
}

fn prefix_ok(p: &str) -> bool {
    p.len() == 6 && p.bytes().all(|b| b.is_ascii_lowercase())
}

#[derive(Serialize, Deserialize)]
pub struct OneshotReq {
    pub rewriters: Vec<RwSpec>,
    pub files: Vec<String>,
    pub sources: Vec<Src>,
    pub fs: FsSpec,
    pub triples: Vec<(usize, usize, usize)>,
}

/// `simrw oneshot`: a different history (sorted triples, each on a brand-new rewriter) in a fresh
/// address space with fresh hash seeds
pub fn oneshot_main() -> i32 {
    exec::install_quiet_panic_hook();
    install_log_sink();
    let mut s = String::new();
    use std::io::Read;
    std::io::stdin().read_to_string(&mut s).ok();
    let req: OneshotReq = match serde_json::from_str(&s) {
        Ok(r) => r,
        Err(e) => {
            eprintln!("bad oneshot request: {e}");
            return 2;
        }
    };
    let mut out: Vec<Outcome> = Vec::new();
    for (r, f, sidx) in &req.triples {
        let spec = &req.rewriters[*r];
        let o = match exec::make_config(&spec.cfg, spec.prng_seed) {
            Ok(c) => exec::call(&c, &req.sources[*sidx].text, &req.files[*f], &req.fs, &FaultPlan::clean()).outcome,
            Err(o) => o,
        };
        out.push(o);
    }
    println!("{}", serde_json::to_string(&out).unwrap());
    0
}

fn run_oneshot(req: &OneshotReq) -> Result<Vec<Outcome>, String> {
    let exe = std::env::current_exe().map_err(|e| e.to_string())?;
    let mut child = Command::new(exe)
        .arg("oneshot")
        .stdin(Stdio::piped())
        .stdout(Stdio::piped())
        .stderr(Stdio::null())
        .spawn()
        .map_err(|e| e.to_string())?;
    let data = serde_json::to_string(req).unwrap();
    let mut stdin = child.stdin.take().unwrap();
    let w = std::thread::spawn(move || {
        let _ = stdin.write_all(data.as_bytes());
    });
    let out = child.wait_with_output().map_err(|e| e.to_string())?;
    let _ = w.join();
    serde_json::from_slice(&out.stdout).map_err(|e| format!("oneshot output: {e}"))
}

impl Engine for C16 {
    fn id(&self) -> &'static str {
        "C16"
    }
    fn level(&self) -> &'static str {
        "exploration"
    }
    fn runs(&self, tier: Tier) -> u64 {
        match tier {
            Tier::Quick => 2400,
            Tier::Thorough => 120_000,
        }
    }
    fn chunk(&self) -> u64 {
        25
    }
    fn plan(&self, seed: u64, run: u64, tier: Tier) -> Value {
        serde_json::to_value(plan16(seed, run, tier)).unwrap()
    }

    fn execute(&self, plan: &Value) -> RunReport {
        let plan: Plan16 = match serde_json::from_value(plan.clone()) {
            Ok(p) => p,
            Err(e) => {
                let mut r = RunReport::default();
                r.notes.push(format!("bad plan: {e}"));
                return r;
            }
        };
        exec::install_quiet_panic_hook();
        install_log_sink();
        let want_log = std::env::var("VERIF_LOG").is_ok();
        let mut rep = RunReport::default();
        let mut log: Vec<String> = Vec::new();
        let mut seq = 0u64;
        let mut configs: Vec<Option<vh::Config>> = Vec::new();
        let mut prefixes: Vec<String> = Vec::new();
        let mut viol: Vec<Violation> = Vec::new();
        let stat = |rep: &mut RunReport, k: &str, n: u64| {
            *rep.stats.entry(k.to_string()).or_insert(0) += n;
        };

        for (i, spec) in plan.rewriters.iter().enumerate() {
            match exec::make_config(&spec.cfg, spec.prng_seed) {
                Ok(c) => {
                    let explicit = spec.cfg.get("localVarPrefix").and_then(|v| v.as_str());
                    match explicit {
                        Some(p) if p != c.local_var_prefix => viol.push(Violation {
                            invariant: "I2".into(),
                            key: "I2:explicit-prefix-ignored".into(),
                            detail: format!("configured prefix {p} but rewriter uses {}", c.local_var_prefix), plan_override: None }),
                        None if !prefix_ok(&c.local_var_prefix) => viol.push(Violation {
                            invariant: "I2".into(),
                            key: "I2:default-prefix-shape".into(),
                            detail: format!("default prefix {:?} is not six lower-case letters", c.local_var_prefix), plan_override: None }),
                        _ => {}
                    }
                    log.push(format!("#{seq} NewRewriter r={i} prefix={}", c.local_var_prefix));
                    prefixes.push(c.local_var_prefix.clone());
                    configs.push(Some(c));
                }
                Err(o) => {
                    log.push(format!("#{seq} NewRewriter r={i} PANIC {:?}", o));
                    viol.push(Violation { invariant: "I4".into(), key: "I4:panic:to_config".into(), detail: format!("{:?}", o), plan_override: None });
                    prefixes.push(String::new());
                    configs.push(None);
                }
            }
            seq += 1;
        }

        // memo model: (cfg text, effective prefix, source idx, file idx) -> (outcome, where first seen)
        let mut model: BTreeMap<(String, String, usize, usize), (Outcome, String)> = BTreeMap::new();
        let mut triples: BTreeMap<(usize, usize, usize), ()> = BTreeMap::new();
        let mut hist: Vec<(u8, usize, &'static str)> = Vec::new();
        let mut prev: Option<(usize, usize, usize, &'static str)> = None;
        let mut file_last_rw: BTreeMap<usize, usize> = BTreeMap::new();

        let mut check = |how: &str,
                         r: usize,
                         f: usize,
                         s: usize,
                         o: &Outcome,
                         model: &mut BTreeMap<(String, String, usize, usize), (Outcome, String)>,
                         viol: &mut Vec<Violation>,
                         at: u64| {
            let key = (plan.rewriters[r].cfg.to_string(), prefixes[r].clone(), s, f);
            if let Outcome::Panic { msg, loc } = o {
                viol.push(Violation {
                    invariant: "I4".into(),
                    key: format!("I4:panic:{loc}"),
                    detail: format!("rewrite panicked at {loc}: {msg} (op #{at}, source kind {})", plan.sources[s].kind),
                    plan_override: None,
                });
            }
            match model.get(&key) {
                None => {
                    model.insert(key, (o.clone(), format!("#{at} {how}")));
                }
                Some((first, wher)) => {
                    if first != o {
                        let tagged = plan.sources[s].kind.contains("multi-trailing-ref");
                        let k = if tagged { "I1:multi-trailing-ref".to_string() } else { format!("I1:{how}") };
                        viol.push(Violation {
                            invariant: "I1".into(),
                            key: k,
                            detail: format!(
                                "same (config, source #{s} [{}], file {}) gave a different result at op #{at} ({how}) than at {wher}: {} vs {}; {}",
                                plan.sources[s].kind,
                                plan.files[f],
                                first.class(),
                                o.class(),
                                first_diff(first, o)
                            ), plan_override: None });
                    }
                }
            }
        };

        let mut faulted: BTreeMap<(String, String, usize, usize, String), Outcome> = BTreeMap::new();
        for op in &plan.ops {
            match op {
                Op::FaultCall { r, f, s, fault } => {
                    if let Some(c) = &configs[*r] {
                        let res = exec::call(c, &plan.sources[*s].text, &plan.files[*f], &plan.fs, fault);
                        for (k, n) in &res.stats.faults_fired {
                            stat(&mut rep, &format!("fault:{k}"), *n as u64);
                        }
                        if let Outcome::Panic { msg, loc } = &res.outcome {
                            viol.push(Violation::new("I4", format!("I4:panic:{loc}"), format!("rewrite panicked at {loc}: {msg} (op #{seq}, faulted call)")));
                        }
                        let fk = (plan.rewriters[*r].cfg.to_string(), prefixes[*r].clone(), *s, *f, serde_json::to_string(fault).unwrap());
                        match faulted.get(&fk) {
                            None => {
                                faulted.insert(fk, res.outcome.clone());
                            }
                            Some(first) => {
                                if first != &res.outcome {
                                    viol.push(Violation::new("I1", "I1:faulted-call", format!("the same call under the same reader fault gave a different result at op #{seq}: {}", first_diff(first, &res.outcome))));
                                }
                            }
                        }
                        let cls = res.outcome.class();
                        log.push(format!("#{seq} FaultCall r={r} f={f} s={s} -> {cls} {:016x} fired={:?}", res.outcome.digest(), res.stats.faults_fired));
                        if res.stats.bytes_served > 0 && res.stats.faults_fired.keys().any(|k| k.starts_with("read:") && k != "read:short") {
                            stat(&mut rep, "probe:reader-failed-after-delivering-bytes", 1);
                        }
                        prev = Some((*r, *f, *s, cls));
                        hist.push((6, *r, cls));
                        stat(&mut rep, "op:faultcall", 1);
                    }
                }
                Op::SetLog { level } => {
                    log::set_max_level(level_of(level));
                    log.push(format!("#{seq} SetLog {level}"));
                    hist.push((4, 0, "-"));
                    stat(&mut rep, "op:setlog", 1);
                }
                Op::Renew { r } => {
                    let spec = &plan.rewriters[*r];
                    match exec::make_config(&spec.cfg, spec.prng_seed) {
                        Ok(c) => {
                            if c.local_var_prefix != prefixes[*r] {
                                viol.push(Violation {
                                    invariant: "I2".into(),
                                    key: "I2:prefix-not-a-function-of-prng".into(),
                                    detail: format!("re-created rewriter {r} under the same PRNG seed drew prefix {} instead of {}", c.local_var_prefix, prefixes[*r]), plan_override: None });
                            }
                            configs[*r] = Some(c);
                        }
                        Err(o) => {
                            viol.push(Violation { invariant: "I4".into(), key: "I4:panic:to_config".into(), detail: format!("{:?}", o), plan_override: None });
                        }
                    }
                    log.push(format!("#{seq} Renew r={r}"));
                    hist.push((5, *r, "-"));
                    stat(&mut rep, "op:renew", 1);
                }
                Op::LogReenter { r, f, s, at } => {
                    if let Some(c) = &configs[*r] {
                        let before = log::max_level();
                        log::set_max_level(log::LevelFilter::Debug);
                        LOG_REENTER.with(|c| *c.borrow_mut() = Some((*at, plan.fs.clone())));
                        let n0 = LOG_REENTRIES.load(std::sync::atomic::Ordering::Relaxed);
                        let res = exec::call(c, &plan.sources[*s].text, &plan.files[*f], &plan.fs, &FaultPlan::clean());
                        LOG_REENTER.with(|c| *c.borrow_mut() = None);
                        log::set_max_level(before);
                        let fired = LOG_REENTRIES.load(std::sync::atomic::Ordering::Relaxed) - n0;
                        stat(&mut rep, "fault:reentrant-rewrite-from-logger", fired);
                        check("logger-reentry", *r, *f, *s, &res.outcome, &mut model, &mut viol, seq);
                        let cls = res.outcome.class();
                        log.push(format!("#{seq} LogReenter r={r} f={f} s={s} at={at} fired={fired} -> {cls} {:016x}", res.outcome.digest()));
                        prev = Some((*r, *f, *s, cls));
                        triples.insert((*r, *f, *s), ());
                        hist.push((9, *r, cls));
                        stat(&mut rep, "op:logreenter", 1);
                    }
                }
                Op::Nested { r, f, s, r2, f2, s2 } => {
                    if let (Some(c), Some(c2)) = (&configs[*r], &configs[*r2]) {
                        let inner_out: std::cell::RefCell<Option<Outcome>> = std::cell::RefCell::new(None);
                        let res = {
                            let io = &inner_out;
                            let (t2, n2, fs2) = (&plan.sources[*s2].text, &plan.files[*f2], &plan.fs);
                            exec::call_reentrant(
                                c,
                                &plan.sources[*s].text,
                                &plan.files[*f],
                                &plan.fs,
                                &FaultPlan::clean(),
                                Box::new(move || {
                                    *io.borrow_mut() = Some(exec::call(c2, t2, n2, fs2, &FaultPlan::clean()).outcome);
                                }),
                            )
                        };
                        for (k, n) in &res.stats.faults_fired {
                            stat(&mut rep, &format!("fault:{k}"), *n as u64);
                        }
                        check("nested-outer", *r, *f, *s, &res.outcome, &mut model, &mut viol, seq);
                        let inner = inner_out.into_inner();
                        if let Some(o) = &inner {
                            check("nested-inner", *r2, *f2, *s2, o, &mut model, &mut viol, seq);
                            triples.insert((*r2, *f2, *s2), ());
                        }
                        let cls = res.outcome.class();
                        log.push(format!("#{seq} Nested r={r} f={f} s={s} -> {cls} {:016x}; inner r={r2} f={f2} s={s2} -> {}", res.outcome.digest(), inner.as_ref().map(|o| format!("{} {:016x}", o.class(), o.digest())).unwrap_or_else(|| "not-fired".into())));
                        prev = Some((*r, *f, *s, cls));
                        triples.insert((*r, *f, *s), ());
                        hist.push((8, *r, cls));
                        stat(&mut rep, "op:nested", 1);
                    }
                }
                Op::Idle { ms } => {
                    instant::sim::advance(std::time::Duration::from_millis(*ms));
                    stat(&mut rep, "sim-time-ms", *ms);
                    stat(&mut rep, "fault:idle-time-passes", 1);
                    log.push(format!("#{seq} Idle {ms} ms"));
                    hist.push((7, 0, "-"));
                }
                Op::Call { r, f, s, chunk, eintr, lat } => {
                    if let Some(c) = &configs[*r] {
                        let res = exec::call(c, &plan.sources[*s].text, &plan.files[*f], &plan.fs, &benign_plan(*chunk, *eintr, *lat));
                        stat(&mut rep, "sim-time-ms", res.stats.sim_ms);
                        for (k, n) in &res.stats.faults_fired {
                            stat(&mut rep, &format!("fault:{k}"), *n as u64);
                        }
                        check("later-call", *r, *f, *s, &res.outcome, &mut model, &mut viol, seq);
                        let cls = res.outcome.class();
                        log.push(format!("#{seq} Call r={r} f={f} s={s} chunk={chunk} eintr={eintr} lat={lat} -> {cls} {:016x} reads={}", res.outcome.digest(), res.stats.read_calls));
                        // probes / cells
                        if let Some((pr, pf, ps, pc)) = prev {
                            if pc == "syntax-error" { stat(&mut rep, "probe:call-after-syntax-error", 1); }
                            if pc == "cancelled" { stat(&mut rep, "probe:call-after-cancelled", 1); }
                            if pf == *f && ps != *s { stat(&mut rep, "probe:same-file-different-content", 1); }
                            if pf != *f && ps == *s { stat(&mut rep, "probe:same-content-different-file", 1); }
                            rep.cells.push(format!("{pc}>{cls}:{}:{}", if pr == *r { "same-rw" } else { "other-rw" }, if pf == *f { "same-file" } else { "other-file" }));
                        }
                        if let Some(lr) = file_last_rw.get(f) {
                            if lr != r { stat(&mut rep, "probe:two-rewriters-alternate-on-one-file", 1); }
                        }
                        file_last_rw.insert(*f, *r);
                        prev = Some((*r, *f, *s, cls));
                        triples.insert((*r, *f, *s), ());
                        hist.push((0, *r, cls));
                        stat(&mut rep, "op:call", 1);
                        stat(&mut rep, &format!("outcome:{cls}"), 1);
                    }
                }
                Op::Repeat { r, f, s, k } => {
                    if let Some(c) = &configs[*r] {
                        let mut cls = "-";
                        for j in 0..*k {
                            let res = exec::call(c, &plan.sources[*s].text, &plan.files[*f], &plan.fs, &FaultPlan::clean());
                            check("repeat", *r, *f, *s, &res.outcome, &mut model, &mut viol, seq);
                            cls = res.outcome.class();
                            log.push(format!("#{seq} Repeat[{j}] r={r} f={f} s={s} -> {cls} {:016x}", res.outcome.digest()));
                            seq += 1;
                        }
                        prev = Some((*r, *f, *s, cls));
                        triples.insert((*r, *f, *s), ());
                        hist.push((1, *r, cls));
                        stat(&mut rep, "op:repeat", 1);
                    }
                }
                Op::Fresh { r, f, s } => {
                    let spec = &plan.rewriters[*r];
                    let o = match exec::make_config(&spec.cfg, spec.prng_seed) {
                        Ok(c) => {
                            if c.local_var_prefix != prefixes[*r] {
                                viol.push(Violation {
                                    invariant: "I2".into(),
                                    key: "I2:prefix-not-a-function-of-prng".into(),
                                    detail: format!("fresh rewriter under the same PRNG seed drew prefix {} instead of {}", c.local_var_prefix, prefixes[*r]), plan_override: None });
                            }
                            exec::call(&c, &plan.sources[*s].text, &plan.files[*f], &plan.fs, &FaultPlan::clean()).outcome
                        }
                        Err(o) => o,
                    };
                    check("fresh-rewriter", *r, *f, *s, &o, &mut model, &mut viol, seq);
                    let cls = o.class();
                    log.push(format!("#{seq} Fresh r={r} f={f} s={s} -> {cls} {:016x}", o.digest()));
                    triples.insert((*r, *f, *s), ());
                    hist.push((2, *r, cls));
                    stat(&mut rep, "op:fresh", 1);
                }
                Op::Hop { r, f, s } => {
                    let spec = plan.rewriters[*r].clone();
                    let text = plan.sources[*s].text.clone();
                    let file = plan.files[*f].clone();
                    let fs = plan.fs.clone();
                    let h = std::thread::Builder::new()
                        .stack_size(16 << 20)
                        .spawn(move || match exec::make_config(&spec.cfg, spec.prng_seed) {
                            Ok(c) => (Some(c.local_var_prefix.clone()), exec::call(&c, &text, &file, &fs, &FaultPlan::clean()).outcome),
                            Err(o) => (None, o),
                        })
                        .unwrap();
                    let (pfx, o) = h.join().unwrap_or((None, Outcome::Panic { msg: "thread died".into(), loc: "?".into() }));
                    if let Some(p) = pfx {
                        if p != prefixes[*r] {
                            viol.push(Violation {
                                invariant: "I2".into(),
                                key: "I2:prefix-not-a-function-of-prng".into(),
                                detail: format!("rewriter built on another thread under the same PRNG seed drew prefix {} instead of {}", p, prefixes[*r]), plan_override: None });
                        }
                    }
                    if plan.rewriters[*r].cfg.get("localVarPrefix").is_none() {
                        stat(&mut rep, "probe:thread-hop-with-random-prefix", 1);
                    }
                    check("other-thread", *r, *f, *s, &o, &mut model, &mut viol, seq);
                    let cls = o.class();
                    log.push(format!("#{seq} Hop r={r} f={f} s={s} -> {cls} {:016x}", o.digest()));
                    triples.insert((*r, *f, *s), ());
                    hist.push((3, *r, cls));
                    stat(&mut rep, "op:hop", 1);
                    stat(&mut rep, "fault:thread-hop", 1);
                }
            }
            seq += 1;
        }
        log::set_max_level(log::LevelFilter::Off);

        // cross-process evaluation of the distinct triples, in sorted order
        if plan.oneshot && !triples.is_empty() {
            let req = OneshotReq {
                rewriters: plan.rewriters.clone(),
                files: plan.files.clone(),
                sources: plan.sources.clone(),
                fs: plan.fs.clone(),
                triples: triples.keys().cloned().collect(),
            };
            match run_oneshot(&req) {
                Ok(outs) => {
                    for ((r, f, s), o) in req.triples.iter().zip(outs.iter()) {
                        check("other-process", *r, *f, *s, o, &mut model, &mut viol, seq);
                        log.push(format!("#{seq} Oneshot r={r} f={f} s={s} -> {} {:016x}", o.class(), o.digest()));
                        seq += 1;
                    }
                    stat(&mut rep, "fault:fresh-process", 1);
                    stat(&mut rep, "op:oneshot-calls", req.triples.len() as u64);
                }
                Err(e) => rep.notes.push(format!("oneshot failed: {e}")),
            }
        }

        stat(&mut rep, "log-records-formatted", LOG_RECORDS.swap(0, std::sync::atomic::Ordering::Relaxed));
        LOG_BYTES.swap(0, std::sync::atomic::Ordering::Relaxed);
        // dedupe violations by key (first occurrence)
        let mut seen = std::collections::BTreeSet::new();
        viol.retain(|v| seen.insert(v.key.clone()));
        rep.violations = viol;
        rep.events = seq;
        let mut h = 0u64;
        for (k, r, c) in &hist {
            h = mix(h, mix(*k as u64, mix(*r as u64, fnv64(c.as_bytes()))));
        }
        if hist.len() > 1 {
            rep.shapes.push(h);
        }
        rep.log_digest = fnv64(log.join("\n").as_bytes());
        if want_log {
            rep.log = Some(log);
        }
        rep
    }

    fn shrink(&self, plan: &Value) -> Vec<Value> {
        let p: Plan16 = match serde_json::from_value(plan.clone()) {
            Ok(p) => p,
            Err(_) => return vec![],
        };
        let mut out = Vec::new();
        if p.oneshot {
            let mut q = p.clone();
            q.oneshot = false;
            out.push(serde_json::to_value(q).unwrap());
        }
        // drop halves, then single ops (from the end)
        let n = p.ops.len();
        if n > 3 {
            let mut q = p.clone();
            q.ops.truncate(n / 2);
            out.push(serde_json::to_value(q).unwrap());
            let mut q = p.clone();
            q.ops.drain(0..n / 2);
            out.push(serde_json::to_value(q).unwrap());
        }
        for i in (0..n).rev() {
            let mut q = p.clone();
            q.ops.remove(i);
            out.push(serde_json::to_value(q).unwrap());
        }
        for (i, op) in p.ops.iter().enumerate() {
            if let Op::Repeat { r, f, s, k } = op {
                if *k > 2 {
                    let mut q = p.clone();
                    q.ops[i] = Op::Repeat { r: *r, f: *f, s: *s, k: 2 };
                    out.push(serde_json::to_value(q).unwrap());
                }
            }
            if let Op::Call { r, f, s, chunk, eintr, lat } = op {
                if *chunk != 0 || *eintr != 0 || *lat != 0 {
                    let mut q = p.clone();
                    q.ops[i] = Op::Call { r: *r, f: *f, s: *s, chunk: 0, eintr: 0, lat: 0 };
                    out.push(serde_json::to_value(q).unwrap());
                }
            }
        }
        // blank unused sources (keeps indices stable)
        let mut used = vec![false; p.sources.len()];
        for op in &p.ops {
            if let Op::Call { s, .. } | Op::Repeat { s, .. } | Op::Fresh { s, .. } | Op::Hop { s, .. } | Op::FaultCall { s, .. } = op {
                used[*s] = true;
            }
        }
        if used.iter().zip(p.sources.iter()).any(|(u, s)| !u && !s.text.is_empty()) {
            let mut q = p.clone();
            for (i, u) in used.iter().enumerate() {
                if !u {
                    q.sources[i].text.clear();
                }
            }
            out.push(serde_json::to_value(q).unwrap());
        }
        out
    }

    fn summarise(&self, plan: &Value) -> Value {
        let p: Plan16 = match serde_json::from_value(plan.clone()) {
            Ok(p) => p,
            Err(_) => return Value::Null,
        };
        json!({
            "rewriters": p.rewriters.iter().map(|r| json!({"prefix": r.cfg.get("localVarPrefix"), "chain": r.cfg["chainSourceMap"], "comments": r.cfg["comments"], "verbosity": r.cfg["telemetryVerbosity"], "prng_seed": r.prng_seed})).collect::<Vec<_>>(),
            "files": p.files,
            "sources": p.sources.iter().map(|s| json!({"kind": s.kind, "bytes": s.text.len()})).collect::<Vec<_>>(),
            "ops": p.ops,
            "oneshot": p.oneshot,
        })
    }

    fn rule(&self) -> String {
        "a case is one seeded call history (10-60 operations: Call (benign faults incl. simulated latency)/Repeat/Fresh/Hop/FaultCall/SetLog/Renew/Idle (simulated time passes)/Nested (the reader re-enters the rewriter on another instance)/LogReenter (the logger does, at its k-th record) over <=4 rewriters, <=6 files, <=8 generated sources, benign reader faults); distinct = hash of the abstract history (operation kind, rewriter index, outcome class per step); non-trivial = at least two operations; cells = outcome-class transitions x same/other rewriter x same/other file".into()
    }

    fn components(&self) -> Value {
        json!({
            "real": ["RewriterConfig::to_config", "generate_prefix_stmts", "rewrite_js", "print_js", "get_metrics", "all visitors/transforms", "telemetry", "literal visitor", "extract_source_map", "chain_source_maps", "FileReader::parent (trait default)", "swc parser/codegen", "sourcemap crate", "fastrand", "log facade"],
            "stub": ["Rewriter::new/rewrite JsValue glue (wasm-bindgen host needed)", "WasmFileReader (replaced by SimFileReader)", "DefaultFileReader::read (real disk; replaced by SimFileReader)", "tracer_logger::set_logger (JS host needed; replaced by a capturing log sink)"]
        })
    }

    fn assumptions(&self) -> Vec<String> {
        vec![
            "fresh rewriters are compared under the same fastrand seed (the random prefix is the only intended input besides config/source/file)".into(),
            "hash-order nondeterminism inside swc's comment map (ahash) cannot be controlled; it is attacked by repetition (Repeat k<=8, fresh process)".into(),
            "each worker process is single-threaded; process-wide state persists across the 25 runs of a chunk, replay runs in a fresh process".into(),
        ]
    }

    fn expected_probes(&self) -> Vec<&'static str> {
        vec![
            "probe:call-after-syntax-error",
            "probe:call-after-cancelled",
            "probe:same-file-different-content",
            "probe:same-content-different-file",
            "probe:two-rewriters-alternate-on-one-file",
            "probe:thread-hop-with-random-prefix",
            "probe:reader-failed-after-delivering-bytes",
        ]
    }
}
