//! C06 H6 - a static oracle over the rewriter's *output*: every occurrence of an injected temporary
//! (`__datadog_<prefix>_<n>`) must lie, inside its own function, in the scope of an injected `let` that
//! declares it, and after that `let`. The harness parses the emitted text with its own parser instance
//! (nothing of the rewriter's state is shared) and walks it with a frame stack:
//!
//!   * a block frame knows which temporaries its injected `let` statements *will* declare and which are
//!     declared *so far* (statements are walked in order);
//!   * a boundary frame marks a function activation boundary: function / method / constructor / arrow /
//!     accessor / instance field initialiser. Parameters are inside the boundary but outside the body.
//!
//! A temporary that is used where no block frame of the same function declares it belongs to another
//! activation (or to nothing at all): `H6:not-declared-in-its-function:<ctx>`; one that is used before the
//! `let` of its block: `H6:use-before-declaration`; one at program level: `H6:temporary-at-program-level`.
//! The scheduled runs of C06 decide the same clause dynamically, but only on the paths a schedule executes.
use std::collections::HashSet;
use swc_common::{sync::Lrc, FileName, SourceMap, Span};
use swc_ecma_ast::*;
use swc_ecma_parser::{parse_file_as_program, EsSyntax, Syntax};
use swc_ecma_visit::{Visit, VisitWith};

pub struct Finding {
    pub key: String,
    pub detail: String,
}

enum Frame {
    Boundary { kind: &'static str, zone: &'static str },
    Block { will: HashSet<String>, done: HashSet<String> },
}

struct Checker {
    prefix: String,
    frames: Vec<Frame>,
    out: Vec<Finding>,
    cm: Lrc<SourceMap>,
    uses: usize,
    lets: usize,
}

fn injected_let_names(stmt: &Stmt, prefix: &str) -> Option<Vec<String>> {
    if let Stmt::Decl(Decl::Var(v)) = stmt {
        if v.kind != VarDeclKind::Let || v.decls.is_empty() {
            return None;
        }
        let mut names = Vec::new();
        for d in &v.decls {
            match &d.name {
                Pat::Ident(b) if is_temp(&b.id.sym, prefix) => names.push(b.id.sym.to_string()),
                _ => return None,
            }
        }
        return Some(names);
    }
    None
}

fn is_temp(sym: &str, prefix: &str) -> bool {
    match sym.strip_prefix(prefix) {
        Some(rest) => !rest.is_empty() && rest.bytes().all(|b| b.is_ascii_digit()),
        None => false,
    }
}

impl Checker {
    fn at(&self, span: Span) -> String {
        if span.lo.0 == 0 {
            return "?".into();
        }
        let p = self.cm.lookup_char_pos(span.lo);
        format!("{}:{}", p.line, p.col_display + 1)
    }
    fn set_zone(&mut self, z: &'static str) {
        if let Some(Frame::Boundary { zone, .. }) = self.frames.last_mut() {
            *zone = z;
        }
    }
    fn boundary<F: FnOnce(&mut Self)>(&mut self, kind: &'static str, f: F) {
        self.frames.push(Frame::Boundary { kind, zone: "params" });
        f(self);
        self.frames.pop();
    }
    fn body(&mut self, b: &Option<BlockStmt>) {
        self.set_zone("body");
        if let Some(b) = b {
            b.visit_with(self);
        }
    }
}

impl Visit for Checker {
    fn visit_block_stmt(&mut self, b: &BlockStmt) {
        let mut will = HashSet::new();
        for s in &b.stmts {
            if let Some(n) = injected_let_names(s, &self.prefix) {
                will.extend(n);
            }
        }
        self.frames.push(Frame::Block { will, done: HashSet::new() });
        for s in &b.stmts {
            if let Some(n) = injected_let_names(s, &self.prefix) {
                self.lets += 1;
                if let Some(Frame::Block { done, .. }) = self.frames.last_mut() {
                    done.extend(n);
                }
                // initialisers (none are emitted; the executor's sentinel arms them) are not uses
                continue;
            }
            s.visit_with(self);
        }
        self.frames.pop();
    }

    fn visit_ident(&mut self, i: &Ident) {
        if !is_temp(&i.sym, &self.prefix) {
            return;
        }
        self.uses += 1;
        let name = i.sym.to_string();
        let mut verdict: Option<(String, String)> = None;
        let mut resolved = false;
        for f in self.frames.iter().rev() {
            match f {
                Frame::Block { will, done } => {
                    if done.contains(&name) {
                        resolved = true;
                        break;
                    }
                    if will.contains(&name) {
                        verdict = Some(("H6:use-before-declaration".into(), format!("{} is used at {} before the injected `let` of its block", name, self.at(i.span))));
                        break;
                    }
                }
                Frame::Boundary { kind, zone } => {
                    verdict = Some((
                        format!("H6:not-declared-in-its-function:{}:{}", kind, zone),
                        format!("{} is used at {} in the {} of a {} but no injected `let` inside that {} declares it: it is not declared at all or belongs to an enclosing activation", name, self.at(i.span), zone, kind, kind),
                    ));
                    break;
                }
            }
        }
        if resolved {
            return;
        }
        let (key, detail) = verdict.unwrap_or_else(|| ("H6:temporary-at-program-level".into(), format!("{} is used at {} outside every block", name, self.at(i.span))));
        if !self.out.iter().any(|f| f.key == key) {
            self.out.push(Finding { key, detail });
        }
    }

    fn visit_function(&mut self, f: &Function) {
        self.boundary("function", |s| {
            f.decorators.visit_with(s);
            f.params.visit_with(s);
            s.body(&f.body);
        });
    }
    fn visit_arrow_expr(&mut self, a: &ArrowExpr) {
        self.boundary("arrow", |s| {
            a.params.visit_with(s);
            s.set_zone("body");
            a.body.visit_with(s);
        });
    }
    fn visit_constructor(&mut self, c: &Constructor) {
        c.key.visit_with(self);
        self.boundary("constructor", |s| {
            c.params.visit_with(s);
            s.body(&c.body);
        });
    }
    // static field initialisers and static blocks run once, synchronously, inside the activation that
    // evaluates the class definition: they are no activation boundary (a temporary of the enclosing block
    // used there belongs to the activation that is running); instance field initialisers run at every `new`
    fn visit_class_prop(&mut self, p: &ClassProp) {
        p.key.visit_with(self);
        if p.is_static {
            p.value.visit_with(self);
            return;
        }
        self.boundary("class-field-instance", |s| {
            s.set_zone("initialiser");
            p.value.visit_with(s);
        });
    }
    fn visit_private_prop(&mut self, p: &PrivateProp) {
        if p.is_static {
            p.value.visit_with(self);
            return;
        }
        self.boundary("class-field-instance", |s| {
            s.set_zone("initialiser");
            p.value.visit_with(s);
        });
    }
    fn visit_auto_accessor(&mut self, p: &AutoAccessor) {
        p.key.visit_with(self);
        if p.is_static {
            p.value.visit_with(self);
            return;
        }
        self.boundary("class-field-instance", |s| {
            s.set_zone("initialiser");
            p.value.visit_with(s);
        });
    }
    fn visit_getter_prop(&mut self, g: &GetterProp) {
        g.key.visit_with(self);
        self.boundary("getter", |s| s.body(&g.body));
    }
    fn visit_setter_prop(&mut self, g: &SetterProp) {
        g.key.visit_with(self);
        self.boundary("setter", |s| {
            g.param.visit_with(s);
            s.body(&g.body);
        });
    }
}

/// `prefix` is the configured local variable prefix (the middle part of `__datadog_<prefix>_<n>`).
pub fn scope_check(code: &str, prefix: &str) -> Result<(Vec<Finding>, usize, usize), String> {
    let cm: Lrc<SourceMap> = Default::default();
    let fm = cm.new_source_file(Lrc::new(FileName::Custom("h6.js".into())), code.to_string());
    let syntax = Syntax::Es(EsSyntax {
        import_attributes: true,
        allow_return_outside_function: true,
        auto_accessors: true,
        ..Default::default()
    });
    let mut errs = vec![];
    let program = parse_file_as_program(&fm, syntax, EsVersion::latest(), None, &mut errs).map_err(|e| format!("{:?}", e.kind()))?;
    let mut c = Checker { prefix: format!("__datadog_{}_", prefix), frames: vec![], out: vec![], cm: cm.clone(), uses: 0, lets: 0 };
    program.visit_with(&mut c);
    Ok((c.out, c.uses, c.lets))
}
