//! simrw — deterministic simulation with fault injection for dd-native-iast-rewriter-js (Rust side).
mod c10;
mod c13;
mod c16;
mod driver;
mod exec;
mod fsim;
mod jsgen;
mod mapgen;
mod prng;
mod scope;
mod smap;

use driver::{Engine, Tier};

fn engines() -> Vec<&'static dyn Engine> {
    vec![&c10::C10, &c13::C13, &c16::C16]
}

fn usage() -> i32 {
    eprintln!("usage: simrw check <C10|C13|C16> <quick|thorough> [--runs N] [--workers N]\n       simrw replay <file>\n       simrw exec <file>\n       simrw worker <prop> <seed> <from> <to> <tier>\n       simrw oneshot | batch | gen <seed>");
    2
}

fn main() {
    let args: Vec<String> = std::env::args().collect();
    let code = real_main(&args);
    std::process::exit(code);
}

fn tier_of(s: &str) -> Tier {
    if s == "thorough" {
        Tier::Thorough
    } else {
        Tier::Quick
    }
}

fn real_main(args: &[String]) -> i32 {
    if args.len() < 2 {
        return usage();
    }
    let engs = engines();
    match args[1].as_str() {
        "check" => {
            if args.len() < 4 {
                return usage();
            }
            let e = match engs.iter().find(|e| e.id() == args[2]) {
                Some(e) => *e,
                None => return usage(),
            };
            let tier = match std::env::var("VERIF_TIER") {
                Ok(t) if t == "quick" || t == "thorough" => tier_of(&t),
                _ => tier_of(&args[3]),
            };
            let seed: u64 = std::env::var("VERIF_SEED").ok().and_then(|s| s.parse().ok()).unwrap_or(1);
            let mut runs = None;
            let mut workers = std::env::var("VERIF_WORKERS").ok().and_then(|s| s.parse().ok()).unwrap_or_else(|| std::thread::available_parallelism().map(|n| n.get()).unwrap_or(8));
            let mut i = 4;
            while i + 1 < args.len() {
                match args[i].as_str() {
                    "--runs" => runs = args[i + 1].parse().ok(),
                    "--workers" => workers = args[i + 1].parse().unwrap_or(workers),
                    _ => {}
                }
                i += 2;
            }
            driver::check_main(e, tier, seed, workers, runs)
        }
        "worker" => {
            if args.len() < 7 {
                return usage();
            }
            let e = match engs.iter().find(|e| e.id() == args[2]) {
                Some(e) => *e,
                None => return usage(),
            };
            let seed: u64 = args[3].parse().unwrap_or(1);
            let from: u64 = args[4].parse().unwrap_or(0);
            let to: u64 = args[5].parse().unwrap_or(0);
            driver::worker_main(e, seed, from, to, tier_of(&args[6]));
            0
        }
        "exec" => {
            if args.len() < 3 {
                return usage();
            }
            driver::exec_main(&engs, &args[2])
        }
        "replay" => {
            if args.len() < 3 {
                return usage();
            }
            driver::replay_main(&engs, &args[2])
        }
        "oneshot" => c16::oneshot_main(),
        "batch" => batch_main(),
        "call" => {
            // debugging aid: one call described by a JSON file {cfg, prng_seed?, file, source, fs?, faults?}
            let v: serde_json::Value = serde_json::from_str(&std::fs::read_to_string(&args[2]).unwrap()).unwrap();
            exec::install_quiet_panic_hook();
            let fs: fsim::FsSpec = v.get("fs").cloned().map(|x| serde_json::from_value(x).unwrap()).unwrap_or_default();
            let faults: fsim::FaultPlan = v.get("faults").cloned().map(|x| serde_json::from_value(x).unwrap()).unwrap_or_default();
            let cfg = match exec::make_config(&v["cfg"], v["prng_seed"].as_u64().unwrap_or(1)) {
                Ok(c) => c,
                Err(o) => {
                    println!("{}", serde_json::to_string_pretty(&o).unwrap());
                    return 1;
                }
            };
            // optional process-wide log level ("debug" / "trace"), as the tracer's setLogger would set it
            c16::install_log_sink();
            log::set_max_level(match v["log_level"].as_str().unwrap_or("off") {
                "error" => log::LevelFilter::Error,
                "debug" => log::LevelFilter::Debug,
                "trace" => log::LevelFilter::Trace,
                _ => log::LevelFilter::Off,
            });
            let n = v["repeat"].as_u64().unwrap_or(1);
            for _ in 0..n {
                let r = exec::call(&cfg, v["source"].as_str().unwrap_or(""), v["file"].as_str().unwrap_or("a.js"), &fs, &faults);
                println!("{}", serde_json::to_string_pretty(&r.outcome).unwrap());
                if let Some(c) = r.outcome.content() {
                    println!("---- content ----\n{}", c);
                    if let Some((_, m)) = smap::split_trailer(c) {
                        println!("---- trailer map ----\n{}", m);
                    }
                }
                println!("---- reader: opens={:?} reads={} bytes={} fired={:?}", r.stats.opens, r.stats.read_calls, r.stats.bytes_served, r.stats.faults_fired);
            }
            0
        }
        "gen" => {
            let seed: u64 = args.get(2).and_then(|s| s.parse().ok()).unwrap_or(1);
            let mut rng = prng::Rng::new(seed);
            let mut o = jsgen::GenOpts::small();
            o.comments = true;
            o.strict = true;
            let (p, n) = jsgen::gen_program(&mut rng, o);
            println!("{}\n// ops={}", p, n);
            0
        }
        _ => usage(),
    }
}

/// sources of the static pass of C06 (H6): the generators of C13 / C16, a pure function of (kind, seed)
fn h6_source(kind: &str, seed: u64) -> String {
    let mut rng = prng::Rng::new(seed ^ 0x4836);
    match kind {
        "program" => {
            let mut o = jsgen::GenOpts::small();
            o.strict = rng.chance(1, 2);
            o.comments = rng.chance(1, 3);
            o.items = 4;
            jsgen::gen_program(&mut rng, o).0
        }
        "corpus" => jsgen::gen_corpus(&mut rng, 6),
        "module" => jsgen::gen_module(&mut rng, 4),
        "repeat" => jsgen::gen_repeat(&mut rng, 24),
        "wide" => {
            let n = 2 + rng.below(40);
            jsgen::gen_wide(&mut rng, n)
        }
        _ => jsgen::gen_zoo(&mut rng, 6),
    }
}

/// `simrw batch`: serve the real rewriter to the Node engine. stdin: {"jobs":[{cfg, prng_seed, file, code, fs?}]}
/// stdout: {"results":[{"ok": <what Rewriter::rewrite serialises>} | {"err": "<message>"} | {"panic": "..."}]}
fn batch_main() -> i32 {
    use std::io::Read;
    exec::install_quiet_panic_hook();
    c16::install_log_sink();
    let mut s = String::new();
    std::io::stdin().read_to_string(&mut s).ok();
    let v: serde_json::Value = match serde_json::from_str(&s) {
        Ok(v) => v,
        Err(e) => {
            eprintln!("bad batch request: {e}");
            return 2;
        }
    };
    let mut out = Vec::new();
    let empty = vec![];
    // phase 1: one rewriter per distinct (configuration, PRNG seed), all created before anything is
    // rewritten - as a process that holds several Rewriter instances does
    let mut configs: Vec<(String, Result<native_iast_rewriter::verif_hooks::Config, String>)> = Vec::new();
    for job in v["jobs"].as_array().unwrap_or(&empty) {
        let key = format!("{}#{}", job["cfg"], job["prng_seed"].as_u64().unwrap_or(1));
        if !configs.iter().any(|(k, _)| k == &key) {
            let c = exec::make_config(&job["cfg"], job["prng_seed"].as_u64().unwrap_or(1)).map_err(|o| format!("{:?}", o));
            configs.push((key, c));
        }
    }
    for job in v["jobs"].as_array().unwrap_or(&empty) {
        let fs: fsim::FsSpec = job.get("fs").cloned().and_then(|x| serde_json::from_value(x).ok()).unwrap_or_default();
        let key = format!("{}#{}", job["cfg"], job["prng_seed"].as_u64().unwrap_or(1));
        let cfg = match &configs.iter().find(|(k, _)| k == &key).unwrap().1 {
            Ok(c) => c,
            Err(o) => {
                out.push(serde_json::json!({"panic": o}));
                continue;
            }
        };
        // the tracer may have switched the rewriter's logger on (process-wide level)
        log::set_max_level(match job["log_level"].as_str().unwrap_or("off") {
            "error" => log::LevelFilter::Error,
            "debug" => log::LevelFilter::Debug,
            "trace" => log::LevelFilter::Trace,
            _ => log::LevelFilter::Off,
        });
        let reader = fsim::SimFileReader::new(&fs, &fsim::FaultPlan::clean());
        // C06 H6: the source may be asked for by generator kind and seed instead of being sent
        let code = match job.get("gen") {
            Some(g) if g.is_object() => h6_source(g["kind"].as_str().unwrap_or("zoo"), g["seed"].as_u64().unwrap_or(1)),
            _ => job["code"].as_str().unwrap_or("").to_string(),
        };
        let source_for_answer = if job.get("gen").map(|g| g.is_object()).unwrap_or(false) { Some(code.clone()) } else { None };
        let file = job["file"].as_str().unwrap_or("").to_string();
        let r = std::panic::catch_unwind(std::panic::AssertUnwindSafe(|| {
            native_iast_rewriter::verif_hooks::rewrite_with_reader(cfg, code, &file, &reader)
        }));
        match r {
            Ok(Ok(res)) => {
                let mut o = serde_json::json!({"ok": serde_json::to_value(&res).unwrap(), "prefix": cfg.local_var_prefix});
                // C06 H6: static scope oracle over the emitted text (own parser instance)
                if job["scopecheck"].as_bool().unwrap_or(false) {
                    let content = o["ok"]["content"].as_str().unwrap_or("").to_string();
                    if !content.is_empty() {
                        // (the configuration type of the code under test may hold interior mutability: only a copy of
                        // the prefix crosses the unwind boundary)
                        let pfx = cfg.local_var_prefix.clone();
                        o["scope"] = match std::panic::catch_unwind(std::panic::AssertUnwindSafe(|| scope::scope_check(&content, &pfx))) {
                            Ok(Ok((f, uses, lets))) => serde_json::json!({"findings": f.iter().map(|x| serde_json::json!({"key": x.key, "detail": x.detail})).collect::<Vec<_>>(), "uses": uses, "lets": lets}),
                            Ok(Err(e)) => serde_json::json!({"parse_error": e}),
                            Err(_) => serde_json::json!({"parse_error": "harness parser panicked"}),
                        };
                    }
                }
                if let Some(src) = source_for_answer {
                    o["source"] = serde_json::Value::String(src);
                }
                out.push(o)
            }
            Ok(Err(e)) => out.push(serde_json::json!({"err": e})),
            Err(_) => {
                let (m, l) = exec::take_last_panic().unwrap_or_default();
                out.push(serde_json::json!({"panic": format!("{l}: {m}")}));
            }
        }
    }
    println!("{}", serde_json::json!({"results": out}));
    0
}
