//! One real rewrite call through the repo's code (`to_config` → `rewrite_js` → `print_js` →
//! `get_metrics`) under a simulated reader, with the outcome canonicalised for comparison.

use crate::fsim::{FaultPlan, FsSpec, ReaderStats, SimFileReader};
use crate::prng::fnv64;
use native_iast_rewriter::verif_hooks as vh;
use serde::{Deserialize, Serialize};
use serde_json::Value;
use std::panic::{catch_unwind, AssertUnwindSafe};

#[derive(Serialize, Deserialize, Clone, Debug, PartialEq, Eq)]
pub struct Lit {
    pub value: String,
    pub locs: Vec<(usize, usize, Option<String>)>,
}

#[derive(Serialize, Deserialize, Clone, Debug, PartialEq, Eq)]
#[serde(tag = "t")]
pub enum Outcome {
    Ok {
        content: String,
        status: Option<String>,
        instrumented: u32,
        file: Option<String>,
        debug: Option<Vec<(String, u32)>>,
        literals: Option<(String, Vec<Lit>)>,
    },
    Err {
        msg: String,
    },
    Panic {
        msg: String,
        loc: String,
    },
}

impl Outcome {
    pub fn class(&self) -> &'static str {
        match self {
            Outcome::Ok { status, .. } => match status.as_deref() {
                Some("modified") => "modified",
                Some("notmodified") => "notmodified",
                _ => "ok-other",
            },
            Outcome::Err { msg } => {
                if msg.contains("Variable name duplicated") {
                    "cancelled"
                } else {
                    "syntax-error"
                }
            }
            Outcome::Panic { .. } => "panic",
        }
    }
    pub fn digest(&self) -> u64 {
        fnv64(serde_json::to_string(self).unwrap().as_bytes())
    }
    pub fn content(&self) -> Option<&str> {
        match self {
            Outcome::Ok { content, .. } => Some(content),
            _ => None,
        }
    }
}

pub fn canonical(r: Result<vh::WasmResult, String>) -> Outcome {
    match r {
        Err(msg) => Outcome::Err { msg },
        Ok(res) => {
            let (status, instrumented, file, debug) = match res.metrics {
                Some(m) => {
                    let dbg = m.propagation_debug.map(|h| {
                        let mut v: Vec<(String, u32)> = h.into_iter().collect();
                        v.sort();
                        v
                    });
                    (Some(m.status), m.instrumented_propagation, Some(m.file), dbg)
                }
                None => (None, 0, None, None),
            };
            let literals = res.literals_result.map(|lr| {
                let mut lits: Vec<Lit> = lr
                    .literals
                    .into_iter()
                    .map(|li| {
                        let mut locs: Vec<(usize, usize, Option<String>)> = li
                            .locations
                            .into_iter()
                            .map(|l| (l.line, l.column, l.ident))
                            .collect();
                        locs.sort();
                        Lit { value: li.value, locs }
                    })
                    .collect();
                lits.sort_by(|a, b| a.value.cmp(&b.value));
                (lr.file, lits)
            });
            Outcome::Ok {
                content: res.content,
                status,
                instrumented,
                file,
                debug,
                literals,
            }
        }
    }
}

thread_local! {
    static LAST_PANIC: std::cell::RefCell<Option<(String, String)>> = const { std::cell::RefCell::new(None) };
}

pub fn install_quiet_panic_hook() {
    std::panic::set_hook(Box::new(|info| {
        let msg = if let Some(s) = info.payload().downcast_ref::<&str>() {
            s.to_string()
        } else if let Some(s) = info.payload().downcast_ref::<String>() {
            s.clone()
        } else {
            "<non-string panic>".to_string()
        };
        let loc = info
            .location()
            .map(|l| format!("{}:{}", short_file(l.file()), l.line()))
            .unwrap_or_else(|| "<unknown>".into());
        LAST_PANIC.with(|p| *p.borrow_mut() = Some((msg, loc)));
    }));
}

/// panic locations inside dependencies / std without the machine-specific part of the path
/// (`<cargo home>/registry/src/<index>/swc_common-0.36.0/src/x.rs` -> `swc_common-0.36.0/src/x.rs`)
fn short_file(f: &str) -> String {
    if let Some(i) = f.find("/registry/src/") {
        let rest = &f[i + "/registry/src/".len()..];
        if let Some(j) = rest.find('/') {
            return rest[j + 1..].to_string();
        }
    }
    if let Some(rest) = f.strip_prefix("/rustc/") {
        if let Some(j) = rest.find('/') {
            return format!("rustc/{}", &rest[j + 1..]);
        }
    }
    f.to_string()
}

pub fn take_last_panic() -> Option<(String, String)> {
    LAST_PANIC.with(|p| p.borrow_mut().take())
}

/// Build the repo's `Config` from a RewriterConfig JSON under a controlled PRNG seed.
/// Returns Err(panic) if `to_config` panics.
pub fn make_config(cfg: &Value, prng_seed: u64) -> Result<vh::Config, Outcome> {
    let cfg = cfg.clone();
    let r = catch_unwind(AssertUnwindSafe(|| {
        fastrand::seed(prng_seed);
        let rc: vh::RewriterConfig = match serde_json::from_value(cfg) {
            Ok(rc) => rc,
            // Rewriter::new falls back to the default configuration on a config it cannot read
            Err(_) => vh::default_rewriter_config(),
        };
        vh::to_config(&rc)
    }));
    match r {
        Ok(c) => Ok(c),
        Err(_) => {
            let (msg, loc) = take_last_panic().unwrap_or_default();
            Err(Outcome::Panic { msg, loc })
        }
    }
}

pub struct CallResult {
    pub outcome: Outcome,
    pub stats: ReaderStats,
}

/// One rewrite call, exactly the body of `Rewriter::rewrite` minus the JsValue conversions.
pub fn call(config: &vh::Config, code: &str, file: &str, fs: &FsSpec, plan: &FaultPlan) -> CallResult {
    let reader = if plan.reenter { SimFileReader::new(fs, plan).with_reenter(Box::new(move || nested_rewrite(fs))) } else { SimFileReader::new(fs, plan) };
    let r = catch_unwind(AssertUnwindSafe(|| {
        vh::rewrite_with_reader(config, code.to_string(), file, &reader)
    }));
    let outcome = match r {
        Ok(res) => canonical(res),
        Err(_) => {
            let (msg, loc) = take_last_panic().unwrap_or_default();
            Outcome::Panic { msg, loc }
        }
    };
    CallResult {
        outcome,
        stats: reader.stats(),
    }
}

/// the nested rewrite a re-entering reader performs (`FaultPlan::reenter`): another file, another instance
pub fn nested_rewrite(fs: &FsSpec) {
    if let Ok(ic) = make_config(&tracer_like_cfg(Some("inner"), true, true, "DEBUG", true), 7) {
        let _ = call(&ic, "function inner(a, b) { return a + b.trim() + 'k-0123456789abcdef literal of the nested file'; }\n//# sourceMappingURL=inner.js.map\n", "/abs/inner/x.js", fs, &FaultPlan::clean());
    }
}

/// The same call, but the reader re-enters: at its first open it runs `inner` (a rewrite on another
/// instance) before answering.
pub fn call_reentrant<'a>(config: &vh::Config, code: &str, file: &str, fs: &FsSpec, plan: &FaultPlan, inner: Box<dyn FnOnce() + 'a>) -> CallResult {
    let reader = SimFileReader::new(fs, plan).with_reenter(inner);
    let r = catch_unwind(AssertUnwindSafe(|| vh::rewrite_with_reader(config, code.to_string(), file, &reader)));
    let outcome = match r {
        Ok(res) => canonical(res),
        Err(_) => {
            let (msg, loc) = take_last_panic().unwrap_or_default();
            Outcome::Panic { msg, loc }
        }
    };
    CallResult { outcome, stats: reader.stats() }
}

/// A configuration close to what the tracer passes in production.
pub fn tracer_like_cfg(prefix: Option<&str>, chain: bool, comments: bool, verbosity: &str, literals: bool) -> Value {
    let mut methods = vec![
        serde_json::json!({"src": "plusOperator", "operator": true}),
        serde_json::json!({"src": "tplOperator", "operator": true}),
    ];
    for (s, d) in [
        ("substring", Some("stringSubstring")),
        ("trim", Some("stringTrim")),
        ("trimStart", Some("stringTrim")),
        ("trimEnd", Some("stringTrim")),
        ("concat", Some("stringConcat")),
        ("slice", None),
        ("replace", None),
    ] {
        let mut m = serde_json::json!({ "src": s });
        if let Some(d) = d {
            m["dst"] = Value::from(d);
        }
        methods.push(m);
    }
    let mut v = serde_json::json!({
        "chainSourceMap": chain,
        "comments": comments,
        "csiMethods": methods,
        "telemetryVerbosity": verbosity,
        "literals": literals,
    });
    if let Some(p) = prefix {
        v["localVarPrefix"] = Value::from(p);
    }
    v
}
