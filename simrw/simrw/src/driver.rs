//! Generic driver: seeded plans → worker processes (single-threaded, fixed chunking so results do
//! not depend on the worker count) → merge in run order → known-finding filter → minimise →
//! replay file confirmed in a fresh process → evidence.

use crate::prng::{fnv64, mix};
use serde::{Deserialize, Serialize};
use serde_json::{json, Value};
use std::collections::{BTreeMap, BTreeSet};
use std::io::{BufRead, BufReader, Write};
use std::path::{Path, PathBuf};
use std::process::{Command, Stdio};
use std::time::{Duration, Instant};

#[derive(Clone, Copy, PartialEq, Eq, Debug)]
pub enum Tier {
    Quick,
    Thorough,
}

impl Tier {
    pub fn name(self) -> &'static str {
        match self {
            Tier::Quick => "quick",
            Tier::Thorough => "thorough",
        }
    }
}

#[derive(Serialize, Deserialize, Clone, Debug)]
pub struct Violation {
    pub invariant: String,
    /// finding key: identifies the specific input / call site / history class that fails
    pub key: String,
    pub detail: String,
    /// a concrete single-case plan that reproduces this violation (used instead of the run's plan
    /// when the run enumerated many cases, e.g. a fault sweep)
    #[serde(default)]
    pub plan_override: Option<Value>,
}

impl Violation {
    pub fn new(invariant: &str, key: impl Into<String>, detail: impl Into<String>) -> Violation {
        Violation {
            invariant: invariant.to_string(),
            key: key.into(),
            detail: detail.into(),
            plan_override: None,
        }
    }
}

#[derive(Serialize, Deserialize, Clone, Debug, Default)]
pub struct RunReport {
    /// logical steps (simulator events) executed
    pub events: u64,
    /// digest of the run's full event log (for determinism proofs)
    pub log_digest: u64,
    pub violations: Vec<Violation>,
    /// non-violation remarks (never affect the exit code)
    pub notes: Vec<String>,
    /// counters: fault kinds fired ("fault:…"), probes ("probe:…"), misc
    pub stats: BTreeMap<String, u64>,
    /// hashes of the abstract non-trivial histories / schedules this run explored
    pub shapes: Vec<u64>,
    /// hashes of abstract cells covered (transitions etc.)
    pub cells: Vec<String>,
    /// optional full event log (only with VERIF_LOG=1)
    pub log: Option<Vec<String>>,
}

pub trait Engine: Sync {
    fn id(&self) -> &'static str;
    fn level(&self) -> &'static str;
    fn runs(&self, tier: Tier) -> u64;
    fn chunk(&self) -> u64 {
        50
    }
    /// wall-clock watchdog: a worker that reports no progress for this long is killed and the
    /// run it was executing is recorded as hung (confirmed by replay in a fresh process)
    fn run_timeout(&self) -> Duration {
        Duration::from_secs(45)
    }
    fn plan(&self, seed: u64, run: u64, tier: Tier) -> Value;
    fn execute(&self, plan: &Value) -> RunReport;
    fn shrink(&self, plan: &Value) -> Vec<Value>;
    fn summarise(&self, plan: &Value) -> Value;
    fn rule(&self) -> String;
    fn components(&self) -> Value;
    fn assumptions(&self) -> Vec<String>;
    /// name of the counter that counts individual executions when one run holds many (a sweep);
    /// evidence.evaluations then reports that counter and `runs` the number of runs
    fn evaluations_counter(&self) -> Option<&'static str> {
        None
    }
    /// expected probes: a probe stuck at zero in a thorough run is reported as a warning
    fn expected_probes(&self) -> Vec<&'static str> {
        vec![]
    }
}

pub fn verif_root() -> PathBuf {
    if let Ok(p) = std::env::var("VERIF_ROOT") {
        return PathBuf::from(p);
    }
    // binary lives in <root>/simrw/target/release/simrw
    let exe = std::env::current_exe().unwrap();
    let mut p = exe.as_path();
    for _ in 0..4 {
        p = p.parent().unwrap_or(Path::new("/verif"));
    }
    p.to_path_buf()
}

#[derive(Deserialize, Clone, Debug)]
pub struct KnownFinding {
    pub property: String,
    pub key: String,
    pub what: String,
    pub status: String,
    #[serde(default)]
    pub commit: Option<String>,
}

pub fn load_known(root: &Path) -> Vec<KnownFinding> {
    let p = root.join("known_findings.json");
    match std::fs::read_to_string(&p) {
        Ok(s) => serde_json::from_str::<Value>(&s)
            .ok()
            .and_then(|v| v.get("findings").cloned())
            .and_then(|v| serde_json::from_value(v).ok())
            .unwrap_or_default(),
        Err(_) => vec![],
    }
}

pub fn is_known(known: &[KnownFinding], prop: &str, key: &str) -> Option<KnownFinding> {
    known
        .iter()
        .find(|k| k.property == prop && k.status == "known" && k.key == key)
        .cloned()
}

#[derive(Serialize, Deserialize)]
struct WorkerLine {
    run: u64,
    #[serde(default)]
    start: bool,
    #[serde(default)]
    report: Option<RunReport>,
    #[serde(default)]
    plan: Option<Value>,
    #[serde(default)]
    sample: Option<Value>,
}

/// child: execute runs [from, to) sequentially in this single-threaded process
pub fn worker_main(e: &dyn Engine, seed: u64, from: u64, to: u64, tier: Tier) {
    let out = std::io::stdout();
    for run in from..to {
        {
            let mut o = out.lock();
            let _ = writeln!(o, "{}", json!({"run": run, "start": true}));
            let _ = o.flush();
        }
        let plan = e.plan(seed, run, tier);
        let report = e.execute(&plan);
        let has_v = !report.violations.is_empty();
        let line = WorkerLine {
            run,
            start: false,
            report: Some(report),
            plan: if has_v { Some(plan.clone()) } else { None },
            sample: if run % 997 == 0 || run < 2 { Some(e.summarise(&plan)) } else { None },
        };
        let mut o = out.lock();
        let _ = writeln!(o, "{}", serde_json::to_string(&line).unwrap());
        let _ = o.flush();
    }
}

struct ChunkResult {
    lines: Vec<WorkerLine>,
    hung_runs: Vec<u64>,
    crashed_run: Option<(u64, String)>,
    harness_panics: Vec<String>,
}

/// kill the child when the parent dies (no orphans when a check is interrupted)
fn die_with_parent(cmd: &mut Command) {
    use std::os::unix::process::CommandExt;
    unsafe {
        cmd.pre_exec(|| {
            libc::prctl(libc::PR_SET_PDEATHSIG, libc::SIGKILL);
            Ok(())
        });
    }
}

pub static ABORT: std::sync::atomic::AtomicBool = std::sync::atomic::AtomicBool::new(false);
static HANGS: std::sync::atomic::AtomicUsize = std::sync::atomic::AtomicUsize::new(0);

/// Run [from, to) in worker processes. A run that makes no progress for `stall` is killed and
/// recorded as hung (watchdog); the chunk then continues after it in a new process.
fn run_chunk(e: &dyn Engine, seed: u64, from: u64, to: u64, tier: Tier) -> ChunkResult {
    let mut res = ChunkResult { lines: Vec::new(), hung_runs: Vec::new(), crashed_run: None, harness_panics: Vec::new() };
    let mut cur = from;
    while cur < to {
        if ABORT.load(std::sync::atomic::Ordering::Relaxed) {
            break;
        }
        let exe = std::env::current_exe().unwrap();
        let mut cmd = Command::new(exe);
        cmd.arg("worker")
            .arg(e.id())
            .arg(seed.to_string())
            .arg(cur.to_string())
            .arg(to.to_string())
            .arg(tier.name())
            .stdin(Stdio::null())
            .stdout(Stdio::piped())
            .stderr(Stdio::piped());
        die_with_parent(&mut cmd);
        let mut child = cmd.spawn().expect("spawn worker");
        let stdout = child.stdout.take().unwrap();
        let stderr = child.stderr.take().unwrap();
        let (tx, rx) = std::sync::mpsc::channel::<String>();
        let t = std::thread::spawn(move || {
            for l in BufReader::new(stdout).lines().map_while(Result::ok) {
                if tx.send(l).is_err() {
                    break;
                }
            }
        });
        let terr = std::thread::spawn(move || {
            let mut s = String::new();
            for l in BufReader::new(stderr).lines().map_while(Result::ok) {
                if s.len() < 4000 {
                    s.push_str(&l);
                    s.push('\n');
                }
            }
            s
        });
        let stall = e.run_timeout();
        let mut last_progress = Instant::now();
        let mut last_started: Option<u64> = None;
        let mut done_here = 0u64;
        let mut hung = None;
        loop {
            match rx.recv_timeout(Duration::from_millis(200)) {
                Ok(l) => {
                    last_progress = Instant::now();
                    if let Ok(w) = serde_json::from_str::<WorkerLine>(&l) {
                        if w.start {
                            last_started = Some(w.run);
                        } else {
                            done_here += 1;
                            res.lines.push(w);
                        }
                    }
                }
                Err(std::sync::mpsc::RecvTimeoutError::Timeout) => {
                    if last_progress.elapsed() > stall {
                        let _ = child.kill();
                        hung = Some(last_started.unwrap_or(cur));
                        break;
                    }
                }
                Err(std::sync::mpsc::RecvTimeoutError::Disconnected) => break,
            }
        }
        let status = child.wait().ok();
        let _ = t.join();
        let err = terr.join().unwrap_or_default();
        if let Some(h) = hung {
            res.hung_runs.push(h);
            if HANGS.fetch_add(1, std::sync::atomic::Ordering::Relaxed) + 1 >= 3 {
                // enough evidence: stop burning the budget on a hanging build
                ABORT.store(true, std::sync::atomic::Ordering::Relaxed);
            }
            cur = h + 1;
            continue;
        }
        if cur + done_here < to {
            // exit code 101 = a Rust panic that unwound out of the harness itself (code under test runs
            // under catch_unwind): a harness error, never a finding. Death by signal (abort, stack
            // overflow) is what T1:abort is for.
            let harness_panic = status.as_ref().and_then(|s| s.code()) == Some(101);
            let code = status.map(|s| format!("{s}")).unwrap_or_default();
            if harness_panic {
                let at = last_started.unwrap_or(cur);
                res.harness_panics.push(format!("worker panicked outside the code under test at run {at}: {}", err.chars().take(600).collect::<String>()));
                cur = at + 1;
                continue;
            }
            let at = last_started.unwrap_or(cur);
            if res.crashed_run.is_none() {
                res.crashed_run = Some((at, format!("worker ended early ({code}): {err}")));
            }
            cur = at + 1;
            continue;
        }
        break;
    }
    res
}

#[derive(Serialize, Deserialize, Clone, Debug)]
pub struct ReplayFile {
    pub property: String,
    pub seed: u64,
    pub run: u64,
    pub invariant: String,
    pub key: String,
    pub detail: String,
    pub minimised: bool,
    pub plan: Value,
    /// plans executed before `plan` in the same process (only when the violation needs the
    /// process history of earlier runs of its chunk to reproduce)
    #[serde(default)]
    pub prelude: Vec<Value>,
}

/// run one plan in a fresh process; returns the report (None on harness failure / timeout)
pub fn exec_fresh(prop: &str, plan: &Value, tmpdir: &Path, timeout: Duration) -> Result<RunReport, String> {
    exec_fresh_p(prop, plan, tmpdir, timeout, None)
}

pub fn exec_fresh_pre(prop: &str, prelude: &[Value], plan: &Value, tmpdir: &Path, timeout: Duration) -> Result<RunReport, String> {
    PRELUDE.with(|p| *p.borrow_mut() = prelude.to_vec());
    let r = exec_fresh_p(prop, plan, tmpdir, timeout, None);
    PRELUDE.with(|p| p.borrow_mut().clear());
    r
}

thread_local! {
    static PRELUDE: std::cell::RefCell<Vec<Value>> = const { std::cell::RefCell::new(Vec::new()) };
}

/// like exec_fresh; with `progress`, the child keeps the plan of the sub-case it is executing in
/// that file (env VERIF_PROGRESS_FILE), so a hang inside a multi-case run can be pinned down
pub fn exec_fresh_p(prop: &str, plan: &Value, tmpdir: &Path, timeout: Duration, progress: Option<&Path>) -> Result<RunReport, String> {
    std::fs::create_dir_all(tmpdir).ok();
    let name = format!("cand-{}-{:016x}.json", std::process::id(), fnv64(plan.to_string().as_bytes()));
    let path = tmpdir.join(name);
    let prelude: Vec<Value> = PRELUDE.with(|p| p.borrow().clone());
    std::fs::write(&path, json!({"property": prop, "plan": plan, "prelude": prelude}).to_string()).map_err(|e| e.to_string())?;
    let exe = std::env::current_exe().unwrap();
    let mut cmd = Command::new(exe);
    cmd.arg("exec").arg(&path).stdin(Stdio::null()).stdout(Stdio::piped()).stderr(Stdio::null());
    if let Some(p) = progress {
        cmd.env("VERIF_PROGRESS_FILE", p);
    }
    die_with_parent(&mut cmd);
    let mut child = cmd.spawn().map_err(|e| e.to_string())?;
    let start = Instant::now();
    let mut so = child.stdout.take().unwrap();
    let reader = std::thread::spawn(move || {
        let mut s = String::new();
        use std::io::Read;
        so.read_to_string(&mut s).ok();
        s
    });
    let res = loop {
        match child.try_wait() {
            Ok(Some(_)) => {
                let s = reader.join().unwrap_or_default();
                break serde_json::from_str::<RunReport>(s.trim()).map_err(|e| format!("bad exec output: {e}: {}", s.chars().take(300).collect::<String>()));
            }
            Ok(None) => {
                if start.elapsed() > timeout {
                    let _ = child.kill();
                    let _ = child.wait();
                    break Err("timeout".into());
                }
                std::thread::sleep(Duration::from_millis(2));
            }
            Err(e) => break Err(e.to_string()),
        }
    };
    let _ = std::fs::remove_file(&path);
    res
}

fn has_same(report: &RunReport, inv: &str, key: &str) -> Option<Violation> {
    report
        .violations
        .iter()
        .find(|v| v.invariant == inv && v.key == key)
        .cloned()
}

pub fn minimise(e: &dyn Engine, plan: Value, v: &Violation, tmpdir: &Path, budget: usize) -> (Value, Violation, usize) {
    minimise_pre(e, &[], plan, v, tmpdir, budget)
}

pub fn minimise_pre(e: &dyn Engine, prelude: &[Value], plan: Value, v: &Violation, tmpdir: &Path, budget: usize) -> (Value, Violation, usize) {
    let hang = v.invariant == "T4";
    let budget = if hang { budget.min(24) } else { budget };
    let timeout = if hang { Duration::from_secs(6) } else { Duration::from_secs(30) };
    let mut cur = plan;
    let mut curv = v.clone();
    let mut execs = 0usize;
    let mut progress = true;
    while progress && execs < budget {
        progress = false;
        for cand in e.shrink(&cur) {
            if execs >= budget {
                break;
            }
            execs += 1;
            match exec_fresh_pre(e.id(), prelude, &cand, tmpdir, timeout) {
                Ok(rep) => {
                    if let Some(nv) = has_same(&rep, &v.invariant, &v.key) {
                        cur = cand;
                        curv = nv;
                        progress = true;
                        break;
                    }
                }
                Err(m) => {
                    if hang && m == "timeout" {
                        cur = cand;
                        progress = true;
                        break;
                    }
                }
            }
        }
    }
    (cur, curv, execs)
}

fn slug(s: &str) -> String {
    s.chars()
        .map(|c| if c.is_ascii_alphanumeric() { c } else { '_' })
        .collect::<String>()
        .trim_matches('_')
        .chars()
        .take(60)
        .collect()
}

pub fn check_main(e: &dyn Engine, tier: Tier, seed: u64, workers: usize, runs_override: Option<u64>) -> i32 {
    let t0 = Instant::now();
    let root = verif_root();
    let known = load_known(&root);
    let total = runs_override.unwrap_or_else(|| e.runs(tier));
    let chunk = e.chunk().max(1);
    println!("VERIF_SEED={} property={} tier={} runs={} chunk={} workers={}", seed, e.id(), tier.name(), total, chunk, workers);

    // chunk list
    let mut chunks: Vec<(u64, u64)> = Vec::new();
    let mut a = 0;
    while a < total {
        let b = (a + chunk).min(total);
        chunks.push((a, b));
        a = b;
    }
    let next = std::sync::Mutex::new(0usize);
    let results: std::sync::Mutex<BTreeMap<usize, ChunkResult>> = std::sync::Mutex::new(BTreeMap::new());
    std::thread::scope(|s| {
        for _ in 0..workers.max(1) {
            s.spawn(|| loop {
                let i = {
                    let mut n = next.lock().unwrap();
                    let i = *n;
                    *n += 1;
                    i
                };
                if i >= chunks.len() {
                    break;
                }
                let (from, to) = chunks[i];
                let r = run_chunk(e, seed, from, to, tier);
                results.lock().unwrap().insert(i, r);
            });
        }
    });
    let results = results.into_inner().unwrap();

    // merge in run order
    let mut evaluations = 0u64;
    let mut events = 0u64;
    let mut stats: BTreeMap<String, u64> = BTreeMap::new();
    let mut shapes: BTreeSet<u64> = BTreeSet::new();
    let mut cells: BTreeSet<String> = BTreeSet::new();
    let mut samples: Vec<Value> = Vec::new();
    let mut all_digest: u64 = 0xABCD;
    let mut found: Vec<(u64, Violation, Value)> = Vec::new();
    let mut harness_errors: Vec<String> = Vec::new();
    let mut notes: BTreeMap<String, u64> = BTreeMap::new();
    let mut per_run_digests: Vec<(u64, u64)> = Vec::new();
    let mut hangs_seen = 0usize;
    let mut late_lines: Vec<(u64, RunReport, Value)> = Vec::new();
    for (_i, cr) in results {
        for run in cr.hung_runs.iter().copied() {
            if hangs_seen >= 2 {
                // two confirmed hangs are enough; do not spend the watchdog again on each
                *notes.entry("further watchdog hits not individually confirmed".to_string()).or_insert(0) += 1;
                continue;
            }
            // watchdog hit: confirm by replay in a fresh process before reporting
            let mut plan = e.plan(seed, run, tier);
            let tmp = root.join("replays/tmp");
            let prog = tmp.join(format!("progress-{}-{}.json", std::process::id(), run));
            let _ = std::fs::remove_file(&prog);
            match exec_fresh_p(e.id(), &plan, &tmp, e.run_timeout(), Some(&prog)) {
                Err(ref m) if m == "timeout" => {
                    // a multi-case run (sweep) leaves the sub-case it hung in
                    if let Some(sub) = std::fs::read_to_string(&prog).ok().and_then(|s| serde_json::from_str::<Value>(&s).ok()) {
                        if let Err(m2) = exec_fresh(e.id(), &sub, &tmp, Duration::from_secs(10)) {
                            if m2 == "timeout" {
                                plan = sub;
                            }
                        }
                    }
                    let _ = std::fs::remove_file(&prog);
                    hangs_seen += 1;
                    found.push((
                        run,
                        Violation {
                            invariant: "T4".into(),
                            key: "T4:hang".into(),
                            detail: "call did not return within the watchdog, confirmed on replay in a fresh process".into(),
                            plan_override: None,
                        },
                        plan,
                    ));
                }
                Ok(rep) => {
                    // the watchdog is wall-clock and the machine may simply have been busy: the run
                    // returns in a fresh process, so take that execution as the run's result
                    *notes.entry("watchdog fired under load; run re-executed in a fresh process".to_string()).or_insert(0) += 1;
                    late_lines.push((run, rep, plan));
                }
                Err(m) => harness_errors.push(format!("watchdog fired for run {run} and its replay failed: {m}")),
            }
        }
        for h in &cr.harness_panics {
            harness_errors.push(h.clone());
        }
        if let Some((run, msg)) = cr.crashed_run {
            // the worker died (abort / stack overflow / OOM): confirm on the single run
            let plan = e.plan(seed, run, tier);
            let tmp = root.join("replays/tmp");
            match exec_fresh(e.id(), &plan, &tmp, Duration::from_secs(60)) {
                Ok(rep) => {
                    if rep.violations.is_empty() {
                        harness_errors.push(format!("worker died at run {run} ({msg}) but the run alone passes"));
                    } else {
                        for v in rep.violations {
                            let p2 = v.plan_override.clone().unwrap_or_else(|| plan.clone());
                            found.push((run, v, p2));
                        }
                    }
                }
                Err(m) => {
                    found.push((
                        run,
                        Violation {
                            invariant: "T1".into(),
                            key: "T1:abort".into(),
                            detail: format!("process died executing this run, also alone in a fresh process: {m}; {msg}"),
                            plan_override: None,
                        },
                        plan,
                    ));
                }
            }
        }
        for l in cr.lines {
            let rep = match l.report {
                Some(r) => r,
                None => continue,
            };
            evaluations += 1;
            events += rep.events;
            all_digest = mix(all_digest, mix(l.run, rep.log_digest));
            per_run_digests.push((l.run, rep.log_digest));
            for (k, v) in rep.stats {
                *stats.entry(k).or_insert(0) += v;
            }
            for s in rep.shapes {
                shapes.insert(s);
            }
            for c in rep.cells {
                cells.insert(c);
            }
            for n in rep.notes {
                *notes.entry(n).or_insert(0) += 1;
            }
            if let Some(s) = l.sample {
                if samples.len() < 6 {
                    samples.push(s);
                }
            }
            for v in rep.violations {
                let plan = v.plan_override.clone().or_else(|| l.plan.clone()).unwrap_or(Value::Null);
                found.push((l.run, v, plan));
            }
        }
    }
    for (run, rep, plan) in late_lines {
        evaluations += 1;
        events += rep.events;
        all_digest = mix(all_digest, mix(run, rep.log_digest));
        per_run_digests.push((run, rep.log_digest));
        for (k, v) in rep.stats {
            *stats.entry(k).or_insert(0) += v;
        }
        for s in rep.shapes {
            shapes.insert(s);
        }
        for c in rep.cells {
            cells.insert(c);
        }
        for v in rep.violations {
            let p2 = v.plan_override.clone().unwrap_or_else(|| plan.clone());
            found.push((run, v, p2));
        }
    }
    if std::env::var("VERIF_DIGESTS").is_ok() {
        for (r, d) in &per_run_digests {
            println!("DIGEST run={} {:016x}", r, d);
        }
    }

    // triage: known findings vs new violations (first occurrence per key)
    let mut known_seen: BTreeMap<String, (u64, String)> = BTreeMap::new();
    let mut new_by_key: BTreeMap<String, (u64, Violation, Value)> = BTreeMap::new();
    let mut alt_by_key: BTreeMap<String, Vec<(u64, Violation, Value)>> = BTreeMap::new();
    for (run, v, plan) in found {
        if let Some(k) = is_known(&known, e.id(), &v.key) {
            let ent = known_seen.entry(v.key.clone()).or_insert((0, k.what.clone()));
            ent.0 += 1;
        } else {
            // further runs that showed the same key: candidates for the confirmation, should the first one depend on luck
            let alts = alt_by_key.entry(v.key.clone()).or_default();
            if new_by_key.contains_key(&v.key) && alts.len() < 4 {
                alts.push((run, v.clone(), plan.clone()));
            }
            new_by_key.entry(v.key.clone()).or_insert((run, v, plan));
        }
    }
    for (k, (n, what)) in &known_seen {
        println!("KNOWN-FINDING: property={} {} [{}] (seen {} times)", e.id(), what, k, n);
    }

    let mut violations_out = 0;
    let mut violation_lines = Vec::new();
    let tmp = root.join("replays/tmp");
    let repl_dir = root.join("replays").join(e.id());
    let mut reported: BTreeSet<String> = BTreeSet::new();
    let mut processed = 0usize;
    for (key, (run, v, plan)) in new_by_key.iter() {
        if violations_out >= 6 || processed >= 16 {
            break;
        }
        processed += 1;
        std::fs::create_dir_all(&repl_dir).ok();
        let hangish = v.invariant == "T4" || v.key == "T1:abort";
        // (A) the run alone, in a fresh process
        // up to ten attempts: a failure that depends on hash order inside the process (std / ahash random
        // state, which no seam controls) shows in most fresh processes, not in every one
        let mut alone = exec_fresh(e.id(), plan, &tmp, if hangish { e.run_timeout() } else { Duration::from_secs(60) });
        if !hangish {
            for _attempt in 0..9 {
                let hit = match &alone {
                    Ok(rep) => has_same(rep, &v.invariant, &v.key).is_some() || rep.violations.iter().any(|o| is_known(&known, e.id(), &o.key).is_none()),
                    Err(_) => false,
                };
                if hit {
                    break;
                }
                alone = exec_fresh(e.id(), plan, &tmp, Duration::from_secs(60));
            }
        }
        // still nothing: another run of the batch that showed the same key may reproduce more readily
        let mut chosen: Option<(u64, Violation, Value)> = None;
        if !hangish {
            let hit_now = match &alone {
                Ok(rep) => has_same(rep, &v.invariant, &v.key).is_some() || rep.violations.iter().any(|o| is_known(&known, e.id(), &o.key).is_none()),
                Err(_) => false,
            };
            if !hit_now {
                'alts: for (r2, v2, p2) in alt_by_key.get(key).map(|x| x.as_slice()).unwrap_or(&[]) {
                    for _ in 0..3 {
                        let a2 = exec_fresh(e.id(), p2, &tmp, Duration::from_secs(60));
                        let hit = match &a2 {
                            Ok(rep) => has_same(rep, &v2.invariant, &v2.key).is_some(),
                            Err(_) => false,
                        };
                        if hit {
                            alone = a2;
                            chosen = Some((*r2, v2.clone(), p2.clone()));
                            break 'alts;
                        }
                    }
                }
            }
        }
        let (run, v, plan) = match &chosen {
            Some((r2, v2, p2)) => (r2, v2, p2),
            None => (run, v, plan),
        };
        let mut target: Option<Violation> = None;
        let mut prelude: Vec<Value> = Vec::new();
        match &alone {
            Ok(rep) => {
                if let Some(same) = has_same(rep, &v.invariant, &v.key) {
                    target = Some(same);
                } else if let Some(other) = rep.violations.iter().find(|o| is_known(&known, e.id(), &o.key).is_none()) {
                    // reproduces as a differently keyed violation of the same property
                    target = Some(other.clone());
                }
            }
            Err(m) => {
                if hangish && (m == "timeout" || v.key == "T1:abort") {
                    target = Some(v.clone());
                }
            }
        }
        if target.is_none() && !hangish {
            // (B) with the process history of the earlier runs of its chunk
            let start = (*run / chunk) * chunk;
            let pre: Vec<Value> = (start..*run).map(|r| e.plan(seed, r, tier)).collect();
            if let Ok(rep) = exec_fresh_pre(e.id(), &pre, plan, &tmp, Duration::from_secs(120)) {
                let hit = has_same(&rep, &v.invariant, &v.key).or_else(|| rep.violations.iter().find(|o| is_known(&known, e.id(), &o.key).is_none()).cloned());
                if let Some(h) = hit {
                    // drop prelude plans while it still reproduces (halves, then singles)
                    let mut cur = pre;
                    let mut step = cur.len().div_ceil(2).max(1);
                    let mut tries = 0;
                    while step >= 1 && !cur.is_empty() && tries < 40 {
                        let mut i = 0;
                        let mut shrunk = false;
                        while i < cur.len() && tries < 40 {
                            let mut cand = cur.clone();
                            let hi = (i + step).min(cand.len());
                            cand.drain(i..hi);
                            tries += 1;
                            let ok = exec_fresh_pre(e.id(), &cand, plan, &tmp, Duration::from_secs(120))
                                .map(|r| has_same(&r, &h.invariant, &h.key).is_some())
                                .unwrap_or(false);
                            if ok {
                                cur = cand;
                                shrunk = true;
                            } else {
                                i += step;
                            }
                        }
                        if step == 1 && !shrunk {
                            break;
                        }
                        step = if step > 1 { step / 2 } else { 1 };
                    }
                    prelude = cur;
                    target = Some(h);
                }
            }
        }
        let target = match target {
            Some(t) => t,
            None => {
                harness_errors.push(format!(
                    "violation {} of run {} did not reproduce in a fresh process, neither alone nor after the earlier runs of its chunk: {}",
                    key,
                    run,
                    v.detail.chars().take(200).collect::<String>()
                ));
                continue;
            }
        };
        if !reported.insert(target.key.clone()) {
            continue;
        }
        let (mplan, mv, execs) = minimise_pre(e, &prelude, plan.clone(), &target, &tmp, 300);
        let rf = ReplayFile {
            property: e.id().into(),
            seed,
            run: *run,
            invariant: mv.invariant.clone(),
            key: mv.key.clone(),
            detail: mv.detail.clone(),
            minimised: execs > 0,
            plan: mplan,
            prelude,
        };
        let path = repl_dir.join(format!("{}-seed{}-run{}.json", slug(&mv.key), seed, run));
        std::fs::write(&path, serde_json::to_string_pretty(&rf).unwrap()).ok();
        violations_out += 1;
        violation_lines.push(format!(
            "VIOLATION property={} replay={} invariant={} key={}{} :: {}",
            e.id(),
            path.display(),
            mv.invariant,
            mv.key,
            if &mv.key != key { format!(" (first observed in-process as {key})") } else { String::new() },
            mv.detail.chars().take(300).collect::<String>()
        ));
    }
    if new_by_key.len() > processed {
        println!("NOTE: {} further violation keys were observed and not individually replayed", new_by_key.len() - processed);
    }

    let wall = t0.elapsed().as_secs_f64();
    // probes stuck at zero
    let mut zero_probes = Vec::new();
    for p in e.expected_probes() {
        if stats.get(p).copied().unwrap_or(0) == 0 {
            zero_probes.push(p.to_string());
        }
    }
    if !zero_probes.is_empty() {
        println!("WARNING probes at zero: {:?}", zero_probes);
    }

    let faults: BTreeMap<&String, &u64> = stats.iter().filter(|(k, _)| k.starts_with("fault:")).collect();
    let probes: BTreeMap<&String, &u64> = stats.iter().filter(|(k, _)| k.starts_with("probe:")).collect();
    let other: BTreeMap<&String, &u64> = stats
        .iter()
        .filter(|(k, _)| !k.starts_with("probe:") && !k.starts_with("fault:"))
        .collect();
    let evidence = json!({
        "property_id": e.id(),
        "tier": tier.name(),
        "seed": seed,
        "level": e.level(),
        "coverage": {
            "evaluations": e.evaluations_counter().and_then(|c| stats.get(c).copied()).unwrap_or(evaluations),
            "runs": evaluations,
            "distinct_nontrivial": shapes.len(),
            "rule": e.rule(),
            "samples": samples,
            "events": events,
            "cells_covered": cells.len(),
            "cells": cells.iter().take(200).collect::<Vec<_>>(),
            "fault_kinds_fired": faults,
            "probes": probes,
            "counters": other,
            "probes_at_zero": zero_probes,
            "runs_per_hour": if wall > 0.0 { (evaluations as f64 / wall * 3600.0) as u64 } else { 0 },
            "events_per_hour": if wall > 0.0 { (events as f64 / wall * 3600.0) as u64 } else { 0 },
            "simulated_time": format!("{} ms of simulated time advanced through the clock seam (the `instant` crate, the repo's time source, is replaced by the simulator's clock; the pinned code never reads it) - logical steps (events) are the primary measure", stats.get("sim-time-ms").copied().unwrap_or(0)),
            "components": e.components(),
            "known_findings_seen": known_seen.iter().map(|(k, (n, _))| json!({"key": k, "count": n})).collect::<Vec<_>>(),
            "notes": notes,
            "all_runs_digest": format!("{:016x}", all_digest),
            "harness_errors": harness_errors,
            "workers": workers,
            "exhaustive": false
        },
        "assumptions": e.assumptions(),
        "wall_s": wall,
        "violations": violations_out
    });
    let evdir = root.join("evidence");
    std::fs::create_dir_all(&evdir).ok();
    let evpath = evdir.join(format!("{}.json", e.id()));
    std::fs::write(&evpath, serde_json::to_string_pretty(&evidence).unwrap()).expect("write evidence");

    println!(
        "property={} runs={} events={} distinct_nontrivial={} cells={} digest={:016x} wall_s={:.1}",
        e.id(),
        evaluations,
        events,
        shapes.len(),
        cells.len(),
        all_digest,
        wall
    );
    for l in &violation_lines {
        println!("{}", l);
    }
    if violations_out > 0 {
        return 1;
    }
    if !harness_errors.is_empty() {
        for h in &harness_errors {
            eprintln!("HARNESS-ERROR: {}", h);
        }
        return 2;
    }
    if ABORT.load(std::sync::atomic::Ordering::Relaxed) && hangs_seen == 0 {
        eprintln!("HARNESS-ERROR: the batch was cut short by watchdog hits that did not confirm as hangs (machine overloaded?)");
        return 2;
    }
    if evaluations < total && !ABORT.load(std::sync::atomic::Ordering::Relaxed) {
        eprintln!("HARNESS-ERROR: only {} of {} runs completed", evaluations, total);
        return 2;
    }
    0
}

/// `simrw exec <file>`: execute one plan in this (fresh) process, print the report
pub fn exec_main(engines: &[&dyn Engine], path: &str) -> i32 {
    let s = match std::fs::read_to_string(path) {
        Ok(s) => s,
        Err(e) => {
            eprintln!("cannot read {path}: {e}");
            return 2;
        }
    };
    let v: Value = match serde_json::from_str(&s) {
        Ok(v) => v,
        Err(e) => {
            eprintln!("bad json: {e}");
            return 2;
        }
    };
    let prop = v["property"].as_str().unwrap_or("");
    let e = match engines.iter().find(|e| e.id() == prop) {
        Some(e) => *e,
        None => {
            eprintln!("unknown property {prop}");
            return 2;
        }
    };
    if let Some(pre) = v.get("prelude").and_then(|p| p.as_array()) {
        for p in pre {
            let _ = e.execute(p);
        }
    }
    let rep = e.execute(&v["plan"]);
    println!("{}", serde_json::to_string(&rep).unwrap());
    if rep.violations.is_empty() {
        0
    } else {
        1
    }
}

/// `simrw replay <file>`: human-readable replay; exit 1 + VIOLATION line if it reproduces
pub fn replay_main(engines: &[&dyn Engine], path: &str) -> i32 {
    let s = match std::fs::read_to_string(path) {
        Ok(s) => s,
        Err(e) => {
            eprintln!("cannot read {path}: {e}");
            return 2;
        }
    };
    let rf: ReplayFile = match serde_json::from_str(&s) {
        Ok(v) => v,
        Err(e) => {
            eprintln!("bad replay file: {e}");
            return 2;
        }
    };
    let e = match engines.iter().find(|e| e.id() == rf.property) {
        Some(e) => *e,
        None => {
            eprintln!("unknown property {}", rf.property);
            return 2;
        }
    };
    std::env::set_var("VERIF_LOG", "1");
    let root = verif_root();
    let known = load_known(&root);
    let rep = if rf.invariant == "T4" || rf.key == "T1:abort" {
        match exec_fresh(e.id(), &rf.plan, &root.join("replays/tmp"), Duration::from_secs(30)) {
            Ok(r) => r,
            Err(m) => {
                println!("fresh-process execution failed the same way: {m}");
                println!("VIOLATION property={} replay={} invariant={} key={}", rf.property, path, rf.invariant, rf.key);
                return 1;
            }
        }
    } else {
        for p in &rf.prelude {
            let _ = e.execute(p);
        }
        e.execute(&rf.plan)
    };
    if !rf.prelude.is_empty() {
        println!("(after {} prelude runs in the same process)", rf.prelude.len());
    }
    if let Some(log) = &rep.log {
        for l in log {
            println!("  {}", l);
        }
    }
    let mut rc = 0;
    for v in &rep.violations {
        if let Some(k) = is_known(&known, e.id(), &v.key) {
            println!("KNOWN-FINDING: property={} {} [{}]", e.id(), k.what, v.key);
        } else {
            println!(
                "VIOLATION property={} replay={} invariant={} key={} :: {}",
                e.id(),
                path,
                v.invariant,
                v.key,
                v.detail
            );
            rc = 1;
        }
    }
    if rep.violations.is_empty() {
        // a failure that depends on hash order inside the process (random state of std / ahash maps, which no
        // seam controls) does not show in every process: try fresh processes before giving up
        for attempt in 2..=10 {
            if let Ok(r) = exec_fresh(e.id(), &rf.plan, &root.join("replays/tmp"), Duration::from_secs(60)) {
                if let Some(v) = r.violations.iter().find(|v| is_known(&known, e.id(), &v.key).is_none()) {
                    println!("(reproduced in fresh process #{attempt}: the failure depends on per-process hash order)");
                    println!("VIOLATION property={} replay={} invariant={} key={} :: {}", e.id(), path, v.invariant, v.key, v.detail);
                    return 1;
                }
            }
        }
        println!("replay: no violation (expected {} {})", rf.invariant, rf.key);
    }
    rc
}
