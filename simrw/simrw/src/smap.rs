//! Independent source-map v3 codec and lookup used by the oracles (no code shared with the
//! `sourcemap` crate the product uses; JSON parsing via serde_json only).

use serde_json::Value;

#[derive(Clone, Debug, PartialEq, Eq)]
pub struct Tok {
    pub gl: u32,
    pub gc: u32,
    /// None = segment with one field only (no source)
    pub src: Option<u32>,
    pub sl: u32,
    pub sc: u32,
    pub name: Option<u32>,
    /// range mapping (the `rangeMappings` proposal): every position of the generated segment maps to
    /// the original position shifted by the same offset
    pub range: bool,
}

#[derive(Clone, Debug, Default)]
pub struct Map {
    pub file: Option<String>,
    pub source_root: Option<String>,
    pub sources: Vec<String>,
    pub names: Vec<String>,
    pub toks: Vec<Tok>,
    pub has_sources_content: bool,
    /// optional embedded contents, parallel to `sources` (emitted when non-empty)
    pub sources_content: Vec<Option<String>>,
    /// non-zero: `to_json` lists the segments of a line in a shuffled order (valid: a segment's
    /// column delta may be negative; consumers index by position)
    pub shuffle_salt: u64,
}

const B64: &[u8; 64] = b"ABCDEFGHIJKLMNOPQRSTUVWXYZabcdefghijklmnopqrstuvwxyz0123456789+/";

fn b64val(c: u8) -> Option<i64> {
    Some(match c {
        b'A'..=b'Z' => (c - b'A') as i64,
        b'a'..=b'z' => (c - b'a') as i64 + 26,
        b'0'..=b'9' => (c - b'0') as i64 + 52,
        b'+' => 62,
        b'/' => 63,
        _ => return None,
    })
}

pub fn vlq_encode(out: &mut String, v: i64) {
    let mut x: u64 = if v < 0 { (((-v) as u64) << 1) | 1 } else { (v as u64) << 1 };
    loop {
        let mut digit = (x & 31) as usize;
        x >>= 5;
        if x != 0 {
            digit |= 32;
        }
        out.push(B64[digit] as char);
        if x == 0 {
            break;
        }
    }
}

fn vlq_decode_seg(seg: &[u8]) -> Option<Vec<i64>> {
    let mut out = Vec::new();
    let mut cur: i64 = 0;
    let mut shift = 0u32;
    for &c in seg {
        let v = b64val(c)?;
        if shift > 60 {
            return None;
        }
        cur |= (v & 31) << shift;
        shift += 5;
        if v & 32 == 0 {
            let neg = cur & 1 == 1;
            let mag = cur >> 1;
            out.push(if neg { -mag } else { mag });
            cur = 0;
            shift = 0;
        }
    }
    if shift != 0 {
        return None;
    }
    Some(out)
}

impl Map {
    pub fn parse(json: &str) -> Result<Map, String> {
        let v: Value = serde_json::from_str(json).map_err(|e| format!("json: {e}"))?;
        Map::from_value(&v)
    }

    pub fn from_value(v: &Value) -> Result<Map, String> {
        let o = v.as_object().ok_or("not an object")?;
        if o.contains_key("sections") {
            return Err("index map".into());
        }
        let mut m = Map::default();
        m.file = o.get("file").and_then(|x| x.as_str()).map(String::from);
        m.source_root = o.get("sourceRoot").and_then(|x| x.as_str()).map(String::from);
        if let Some(a) = o.get("sources").and_then(|x| x.as_array()) {
            for s in a {
                m.sources.push(s.as_str().unwrap_or("").to_string());
            }
        }
        if let Some(a) = o.get("names").and_then(|x| x.as_array()) {
            for s in a {
                m.names.push(s.as_str().unwrap_or("").to_string());
            }
        }
        m.has_sources_content = o
            .get("sourcesContent")
            .and_then(|x| x.as_array())
            .map(|a| a.iter().any(|x| !x.is_null()))
            .unwrap_or(false);
        let mappings = o.get("mappings").and_then(|x| x.as_str()).unwrap_or("");
        let (mut src, mut sl, mut sc, mut name) = (0i64, 0i64, 0i64, 0i64);
        let rm_lines: Vec<&str> = o.get("rangeMappings").and_then(|x| x.as_str()).unwrap_or("").split(';').collect();
        for (gl, line) in mappings.split(';').enumerate() {
            let mut gc = 0i64;
            // bit i of the line's base64 bitset (6 bits per character, least significant first)
            let bits: Vec<bool> = rm_lines
                .get(gl)
                .map(|l| l.bytes().flat_map(|c| { let v = b64val(c).unwrap_or(0); (0..6).map(move |k| (v >> k) & 1 == 1) }).collect())
                .unwrap_or_default();
            for (seg_idx, seg) in line.split(',').enumerate() {
                if seg.is_empty() {
                    continue;
                }
                let f = vlq_decode_seg(seg.as_bytes()).ok_or("bad vlq")?;
                if f.is_empty() {
                    return Err("empty segment".into());
                }
                gc += f[0];
                let mut t = Tok {
                    gl: gl as u32,
                    gc: gc as u32,
                    src: None,
                    sl: 0,
                    sc: 0,
                    name: None,
                    range: false,
                };
                if f.len() >= 4 {
                    src += f[1];
                    sl += f[2];
                    sc += f[3];
                    t.src = Some(src as u32);
                    t.sl = sl as u32;
                    t.sc = sc as u32;
                    if f.len() >= 5 {
                        name += f[4];
                        t.name = Some(name as u32);
                    }
                } else if f.len() != 1 {
                    return Err("bad segment arity".into());
                }
                t.range = bits.get(seg_idx).copied().unwrap_or(false);
                m.toks.push(t);
            }
        }
        Ok(m)
    }

    pub fn to_json(&self) -> String {
        let mut mappings = String::new();
        let mut toks = self.toks.clone();
        toks.sort_by_key(|t| (t.gl, t.gc));
        if self.shuffle_salt != 0 && !toks.iter().any(|t| t.range) {
            // within a line, a salted order (range bits are positional, so range maps stay sorted)
            let salt = self.shuffle_salt;
            toks.sort_by_key(|t| {
                let h = (t.gc as u64 ^ salt).wrapping_mul(0x9E37_79B9_7F4A_7C15).rotate_left(17) ^ (t.gl as u64).wrapping_mul(0xD6E8_FEB8_6659_FD93);
                (t.gl, h)
            });
        }
        let (mut src, mut sl, mut sc, mut name) = (0i64, 0i64, 0i64, 0i64);
        let mut line = 0u32;
        let mut gc = 0i64;
        let mut first = true;
        let mut rm = String::new();
        let mut line_bits: Vec<bool> = Vec::new();
        let flush = |bits: &mut Vec<bool>, rm: &mut String| {
            while bits.last() == Some(&false) {
                bits.pop();
            }
            for chunk in bits.chunks(6) {
                let mut v = 0usize;
                for (k, b) in chunk.iter().enumerate() {
                    if *b {
                        v |= 1 << k;
                    }
                }
                rm.push(B64[v] as char);
            }
            bits.clear();
        };
        for t in &toks {
            while line < t.gl {
                mappings.push(';');
                flush(&mut line_bits, &mut rm);
                rm.push(';');
                line += 1;
                gc = 0;
                first = true;
            }
            line_bits.push(t.range);
            if !first {
                mappings.push(',');
            }
            first = false;
            vlq_encode(&mut mappings, t.gc as i64 - gc);
            gc = t.gc as i64;
            if let Some(s) = t.src {
                vlq_encode(&mut mappings, s as i64 - src);
                src = s as i64;
                vlq_encode(&mut mappings, t.sl as i64 - sl);
                sl = t.sl as i64;
                vlq_encode(&mut mappings, t.sc as i64 - sc);
                sc = t.sc as i64;
                if let Some(n) = t.name {
                    vlq_encode(&mut mappings, n as i64 - name);
                    name = n as i64;
                }
            }
        }
        let mut o = serde_json::Map::new();
        o.insert("version".into(), Value::from(3));
        if let Some(f) = &self.file {
            o.insert("file".into(), Value::from(f.clone()));
        }
        if let Some(r) = &self.source_root {
            o.insert("sourceRoot".into(), Value::from(r.clone()));
        }
        o.insert(
            "sources".into(),
            Value::Array(self.sources.iter().map(|s| Value::from(s.clone())).collect()),
        );
        o.insert(
            "names".into(),
            Value::Array(self.names.iter().map(|s| Value::from(s.clone())).collect()),
        );
        if !self.sources_content.is_empty() {
            o.insert(
                "sourcesContent".into(),
                Value::Array(self.sources_content.iter().map(|c| c.clone().map(Value::from).unwrap_or(Value::Null)).collect()),
            );
        }
        o.insert("mappings".into(), Value::from(mappings));
        if toks.iter().any(|t| t.range) {
            flush(&mut line_bits, &mut rm);
            o.insert("rangeMappings".into(), Value::from(rm));
        }
        Value::Object(o).to_string()
    }

    /// tokens sorted by generated position (stable)
    pub fn sorted(&self) -> Vec<Tok> {
        let mut t = self.toks.clone();
        t.sort_by_key(|t| (t.gl, t.gc));
        t
    }

    /// greatest lower bound over (gl, gc) lexicographically (crossing lines), first among equals
    pub fn glb<'a>(sorted: &'a [Tok], line: u32, col: u32) -> Option<&'a Tok> {
        let mut best: Option<usize> = None;
        // binary search for last index with key <= (line,col)
        let (mut lo, mut hi) = (0usize, sorted.len());
        while lo < hi {
            let mid = (lo + hi) / 2;
            if (sorted[mid].gl, sorted[mid].gc) <= (line, col) {
                lo = mid + 1;
            } else {
                hi = mid;
            }
        }
        if lo > 0 {
            let mut i = lo - 1;
            let key = (sorted[i].gl, sorted[i].gc);
            while i > 0 && (sorted[i - 1].gl, sorted[i - 1].gc) == key {
                i -= 1;
            }
            best = Some(i);
        }
        best.map(|i| &sorted[i])
    }

    /// resolution of a generated position: the greatest-lower-bound token and the original column it
    /// gives (a range token on the same line shifts by the distance from its start)
    pub fn resolve<'a>(sorted: &'a [Tok], line: u32, col: u32) -> Option<(&'a Tok, u32)> {
        let t = Map::glb(sorted, line, col)?;
        let sc = if t.range && t.gl == line { t.sc + (col - t.gc) } else { t.sc };
        Some((t, sc))
    }

    /// source name as the `sourcemap` crate presents it (sourceRoot prefixed unless absolute)
    pub fn source_name(&self, idx: u32) -> Option<String> {
        let s = self.sources.get(idx as usize)?;
        match &self.source_root {
            Some(root) if !root.is_empty() => {
                let is_abs = !s.is_empty() && (s.starts_with('/') || s.starts_with("http:") || s.starts_with("https:"));
                if is_abs {
                    Some(s.clone())
                } else {
                    let r = root.strip_suffix('/').unwrap_or(root);
                    Some(format!("{r}/{s}"))
                }
            }
            _ => Some(s.clone()),
        }
    }
}

/// Extract the inline trailer (last line) of a rewritten content; returns (code_part, map_json)
pub fn split_trailer(content: &str) -> Option<(&str, String)> {
    const P: &str = "\n//# sourceMappingURL=data:application/json;base64,";
    let idx = content.rfind(P)?;
    let b64 = &content[idx + P.len()..];
    if b64.contains('\n') {
        return None;
    }
    let bytes = crate::prng::b64_decode(b64)?;
    let json = String::from_utf8(bytes).ok()?;
    Some((&content[..idx], json))
}
