//! C10 — chained source map is the exact composition; trailer/comment handling is safe.
//! Original-map reference kinds x FS states x reader fault regimes (clean / benign / fatal, run
//! separately) x {chain, comments}; oracle = independent composition + fallback + text diff.

use crate::driver::{Engine, RunReport, Tier, Violation};
use crate::exec;
use crate::fsim::{FaultPlan, FsNode, FsSpec, IoKind, ReadAct, ReaderStats, SimFileReader};
use crate::jsgen::{self, GenOpts};
use crate::mapgen;
use crate::prng::{b64_encode, fnv64, mix, Rng};
use crate::smap::{self, Map, Tok};
use native_iast_rewriter::verif_hooks as vh;
use serde::{Deserialize, Serialize};
use serde_json::{json, Value};
use std::collections::BTreeSet;
use std::panic::{catch_unwind, AssertUnwindSafe};

#[derive(Serialize, Deserialize, Clone, Debug)]
pub struct Plan10 {
    pub file: String,
    /// the program without any reference comment
    pub program: String,
    /// text appended to the program that carries the reference ("" = none)
    pub ref_text: String,
    pub ref_kind: String,
    /// the original map O when a usable regular map is expected under clean / benign regimes
    pub orig_map: Option<String>,
    /// the path the reader must be asked for (external kinds)
    pub expected_open: Option<String>,
    pub fs: FsSpec,
    pub benign: FaultPlan,
    pub fatal: FaultPlan,
    pub lookalike: bool,
    pub prng_seed: u64,
    pub tags: Vec<String>,
    /// a second, different original map for the same program (FS histories)
    #[serde(default)]
    pub orig_map2: Option<String>,
    /// what FileReader::parent answers in every regime ("default" | "none"): with "none" a relative
    /// reference has no folder to resolve against (plain map), inline / absolute ones stay usable
    #[serde(default)]
    pub parent_none: bool,
    /// process-wide log level during all calls of this case ("off" | "debug" | "trace")
    #[serde(default)]
    pub log_level: String,
    /// FS history for external references: states of the map file between successive calls
    /// ("missing" | "O" | "O2" | "denied" | "malformed")
    #[serde(default)]
    pub fs_history: Vec<String>,
    /// pieces of program text that must be found verbatim in the code part of every output
    /// (`true`: only when comments are kept) - multi-line literals / comments with a line that
    /// looks like a reference comment
    #[serde(default)]
    pub planted: Vec<(String, bool)>,
}

pub struct C10;

struct Out {
    status: String,
    /// rewrite map R as returned by rewrite_js
    r: String,
    content: String,
    stats: ReaderStats,
}

fn cfg_for(chain: bool, comments: bool) -> Value {
    exec::tracer_like_cfg(Some("test"), chain, comments, "OFF", false)
}

fn run(cfgv: &Value, seed: u64, code: &str, file: &str, fs: &FsSpec, plan: &FaultPlan) -> Result<Out, String> {
    let cfg = exec::make_config(cfgv, seed).map_err(|o| format!("to_config: {:?}", o))?;
    let reader = if plan.reenter { SimFileReader::new(fs, plan).with_reenter(Box::new(move || exec::nested_rewrite(fs))) } else { SimFileReader::new(fs, plan) };
    let r = catch_unwind(AssertUnwindSafe(|| {
        vh::rewrite_js(code.to_string(), file, &cfg, &reader).map(|res| {
            let content = vh::print_js(&res.code, &res.source_map, &res.original_source_map, &cfg).into_owned();
            let status = res.transform_status.map(|s| s.status.to_string().to_lowercase()).unwrap_or_default();
            (status, res.source_map, content)
        })
    }));
    match r {
        Err(_) => {
            let (m, l) = exec::take_last_panic().unwrap_or_default();
            Err(format!("panic at {l}: {m}"))
        }
        Ok(Err(e)) => Err(format!("rewrite error: {e}")),
        Ok(Ok((status, r, content))) => Ok(Out { status, r, content, stats: reader.stats() }),
    }
}

/// the two halves of the call with their own configurations (the library API takes one for `rewrite_js` and one
/// for `print_js`; the binding passes the same twice, the repo's own tests do not)
fn run_split(cfg_rw: &Value, cfg_pr: &Value, seed: u64, code: &str, file: &str, fs: &FsSpec, plan: &FaultPlan) -> Result<(String, String), String> {
    let c1 = exec::make_config(cfg_rw, seed).map_err(|o| format!("to_config: {:?}", o))?;
    let c2 = exec::make_config(cfg_pr, seed).map_err(|o| format!("to_config: {:?}", o))?;
    let reader = SimFileReader::new(fs, plan);
    let r = catch_unwind(AssertUnwindSafe(|| {
        vh::rewrite_js(code.to_string(), file, &c1, &reader).map(|res| {
            let content = vh::print_js(&res.code, &res.source_map, &res.original_source_map, &c2).into_owned();
            let status = res.transform_status.map(|s| s.status.to_string().to_lowercase()).unwrap_or_default();
            (status, content)
        })
    }));
    match r {
        Err(_) => {
            let (m, l) = exec::take_last_panic().unwrap_or_default();
            Err(format!("panic at {l}: {m}"))
        }
        Ok(Err(e)) => Err(format!("rewrite error: {e}")),
        Ok(Ok(x)) => Ok(x),
    }
}

/// the same call through the repo's real-disk reader (`DefaultFileReader`: `File::open`, the trait's `parent`)
fn run_real(cfgv: &Value, seed: u64, code: &str, file: &str) -> Result<(String, String), String> {
    let cfg = exec::make_config(cfgv, seed).map_err(|o| format!("to_config: {:?}", o))?;
    let reader = vh::DefaultFileReader {};
    let r = catch_unwind(AssertUnwindSafe(|| {
        vh::rewrite_js(code.to_string(), file, &cfg, &reader).map(|res| {
            let content = vh::print_js(&res.code, &res.source_map, &res.original_source_map, &cfg).into_owned();
            let status = res.transform_status.map(|s| s.status.to_string().to_lowercase()).unwrap_or_default();
            (status, content)
        })
    }));
    match r {
        Err(_) => {
            let (m, l) = exec::take_last_panic().unwrap_or_default();
            Err(format!("panic at {l}: {m}"))
        }
        Ok(Err(e)) => Err(format!("rewrite error: {e}")),
        Ok(Ok(x)) => Ok(x),
    }
}

/// K7 scratch directory: the simulated FS written to the real disk, the file reached through symbolic links.
/// Returns the name to pass to the rewriter. Variants: 0 plain file, 1 the file is a link to a file in another
/// folder (the map stays beside the link), 2 the file's folder is a link to the folder holding file and map.
fn materialise(root: &std::path::Path, fs: &FsSpec, file: &str, code: &str, map_path: &str, variant: u64) -> std::io::Result<(String, u64)> {
    use std::fs;
    let at = |p: &str| root.join(p.trim_start_matches('/'));
    let fdir = dir_of(file);
    let beside = dir_of(map_path) == fdir && fdir != "/" && !fdir.is_empty();
    let variant = if variant == 2 && !beside { 1 } else { variant };
    let base = std::path::Path::new(file).file_name().map(|b| b.to_string_lossy().to_string()).unwrap_or_default();
    let phys_dir = root.join("__store/dir");
    let place = |p: &str| -> std::path::PathBuf {
        // variant 2: everything inside the file's folder physically lives in __store/dir
        if variant == 2 && dir_of(p) == fdir {
            phys_dir.join(std::path::Path::new(p).file_name().unwrap_or_default())
        } else {
            at(p)
        }
    };
    if variant == 2 {
        fs::create_dir_all(&phys_dir)?;
        if let Some(pp) = at(&fdir).parent() {
            fs::create_dir_all(pp)?;
        }
        std::os::unix::fs::symlink(&phys_dir, at(&fdir))?;
    }
    for (k, n) in &fs.nodes {
        if !k.starts_with('/') {
            continue;
        }
        let dst = place(k);
        match n {
            FsNode::Dir => fs::create_dir_all(&dst)?,
            _ => {
                if let Some(pp) = dst.parent() {
                    fs::create_dir_all(pp)?;
                }
                fs::write(&dst, fs_content(fs, k))?;
            }
        }
    }
    match variant {
        1 => {
            let store = root.join("__store/aaa");
            fs::create_dir_all(&store)?;
            fs::write(store.join(&base), code)?;
            if let Some(pp) = at(file).parent() {
                fs::create_dir_all(pp)?;
            }
            std::os::unix::fs::symlink(store.join(&base), at(file))?;
        }
        _ => {
            let dst = place(file);
            if let Some(pp) = dst.parent() {
                fs::create_dir_all(pp)?;
            }
            fs::write(dst, code)?;
        }
    }
    Ok((at(file).to_string_lossy().to_string(), variant))
}

fn fs_content(fs: &FsSpec, k: &str) -> Vec<u8> {
    fs.content(k).unwrap_or_default()
}

/// first half of a text, cut at a character boundary
fn half(s: &str) -> String {
    let mut n = s.len() / 2;
    while n > 0 && !s.is_char_boundary(n) {
        n -= 1;
    }
    s[..n].to_string()
}

fn dir_of(f: &str) -> String {
    std::path::Path::new(f).parent().map(|p| p.to_string_lossy().to_string()).unwrap_or_default()
}
fn join(dir: &str, rel: &str) -> String {
    std::path::Path::new(dir).join(rel).to_string_lossy().to_string()
}

fn plan10(seed: u64, run: u64, tier: Tier) -> Plan10 {
    let mut rng = Rng::new(mix(mix(seed, 0xC10), run));
    let file = (*rng.pick(&["/app/src/a.js", "/app/src/sub/b.js", "rel/c.js", "d.js", "/app/my dir/\u{e9}.js"])).to_string();
    let dir = dir_of(&file);
    let mut o = GenOpts::small();
    let big = tier == Tier::Thorough && rng.chance(1, 12);
    o.items = if big { rng.range(4, 9) } else { rng.range(1, 3) };
    o.stmts = rng.range(1, 4);
    o.depth = rng.range(1, 3);
    o.module = rng.chance(1, 5);
    o.strict = rng.chance(1, 3);
    o.comments = rng.chance(1, 2);
    o.crlf = rng.chance(1, 10);
    o.unicode = rng.chance(1, 3);
    let (mut program, _) = jsgen::gen_program(&mut rng, o);
    if run % 40 == 11 {
        // a big program: the final map is larger than 64 KiB (anything encoded, buffered or copied in blocks)
        let n = *rng.pick(&[400usize, 700, 1500]);
        program = jsgen::gen_repeat(&mut rng, n);
    } else if rng.chance(1, 6) {
        // the repository's own test inputs, in blocks (a syntax error in one makes the run a non-chaining one)
        let n = rng.range(1, 3);
        let c = jsgen::gen_corpus(&mut rng, n);
        if !c.contains("sourceMappingURL") {
            program = c;
        }
    }
    // make sure something is instrumented
    // the last statement, sometimes with comments after it (they share the trailing-comment entry
    // the reference comment will land in)
    match rng.below(4) {
        0 => program.push_str("function always(a, b) { return a + b; } /* public api */\n"),
        1 => program.push_str("function always(a, b) { return a + b; }\n// end of bundle\n"),
        2 => program.push_str("function always(a, b) { return a + b; } // trailing note\n/* footer */\n"),
        _ => program.push_str("function always(a, b) { return a + b; }\n"),
    }
    let mut tags = Vec::new();
    let mut fs = FsSpec::default();
    let mut shape = mapgen::gen_shape(&mut rng);
    shape.alt_spelling = true;
    let mut omap = mapgen::gen_orig_map(&mut rng, &program, &shape);
    if rng.chance(1, 8) {
        // the original map names its source like the file being rewritten (in-place minification,
        // `src/x.js` -> `lib/x.js`): the same string as the rewrite map's only source
        let base = file.rsplit('/').next().unwrap_or("").to_string();
        if !base.is_empty() && !omap.sources.is_empty() {
            omap.sources[0] = base;
            if rng.chance(1, 2) {
                omap.source_root = None;
            }
            tags.push("O:source-named-like-the-file".into());
        }
    }
    // round r, from a side stream (every earlier choice stays as it was): an entry of `sources` that is the empty
    // string or `null` (bundlers write that for generated code; the composition then says source "" - with the
    // line, column and name of the original token), and a map body that starts with the XSSI guard line `)]}'`
    // (allowed by the source map specification; decoders strip it)
    let mut side = rng.side(0xC10_52);
    let mut null_source: Option<usize> = None;
    if side.chance(1, 9) && !omap.sources.is_empty() {
        let k = side.below(omap.sources.len());
        omap.sources[k] = String::new();
        omap.source_root = None;
        if side.chance(1, 2) {
            null_source = Some(k);
        }
        tags.push(format!("O:empty-source-entry{}", if null_source.is_some() { ":null" } else { "" }));
    }
    let xssi_guard = side.chance(1, 9);
    let mut ojson = omap.to_json();
    if let Some(k) = null_source {
        if let Ok(mut v) = serde_json::from_str::<serde_json::Value>(&ojson) {
            v["sources"][k] = serde_json::Value::Null;
            ojson = v.to_string();
        }
    }
    // what the file system / the data URL serves; `ojson` stays what the oracle composes with
    // round s: a map file past the sizes a reader might cap (9 MiB of insignificant white space right after the
    // opening brace: cutting the file anywhere leaves no JSON); one case in fifty
    let big_body = side.chance(1, 50);
    let served = if xssi_guard {
        format!(")]}}'\n{}", ojson)
    } else if big_body && ojson.starts_with('{') {
        tags.push("O:big-body-9MiB".into());
        format!("{{{}{}", " ".repeat(9 << 20), &ojson[1..])
    } else {
        ojson.clone()
    };
    if xssi_guard {
        tags.push("O:xssi-guard-line".into());
    }
    tags.push(format!("O:sources={},names={},root={:?},sparse={}", shape.sources, shape.names, shape.source_root, shape.sparse));
    let mut orig_map = None;
    let mut expected_open = None;
    let ref_text;
    let ref_kind;
    // `?` and `#` are legal in file and folder names
    // long names: more than 255 bytes of short components; non-ASCII letters at every byte offset
    let long_ascii = format!("{}x.js.map", "ab/".repeat(rng.range(86, 120)));
    let long_unicode = format!("{}maps/{}/app.js.map", "p".repeat(rng.below(9)), "\u{e9}quipe-donn\u{e9}es-r\u{e9}f\u{e9}rentiel-g\u{e9}n\u{e9}r\u{e9}s-\u{5171}\u{4eab}".repeat(rng.range(1, 3)));
    // names that merely begin like a URL scheme are file names too
    let url_pool: [&str; 12] = ["a.js.map", "maps/a.js.map", "../maps/out.map", "./x.map", "maps/what?.js.map", "issue#4711/a.js.map", "a.js.map?v=1", &long_ascii, &long_unicode, "http-client.js.map", "https/index.js.map", "data/app.js.map"];
    let url_name: &str = url_pool[rng.below(url_pool.len())];
    // in a minority of runs the program contains literals that merely look like the comment
    let lookalike = rng.chance(1, 8);
    match rng.below(16) {
        0 | 1 | 2 => {
            // the media type may carry a charset parameter (the form Babel, TypeScript, esbuild and
            // convert-source-map emit)
            let preamble = *rng.pick(&[
                "data:application/json;base64,",
                "data:application/json;base64,",
                "data:application/json;base64,",
                "data:application/json;charset=utf-8;base64,",
                "data:application/json;charset=UTF-8;base64,",
                "data:application/json;charset=utf8;base64,",
                "data:application/json;Charset=utf-8;base64,",
                "data:application/json;CHARSET=UTF-8;base64,",
                "data:application/json; charset=utf-8;base64,",
            ]);
            ref_kind = if preamble.to_ascii_lowercase().contains("charset") { "inline-charset" } else { "inline" };
            ref_text = format!("\n//# sourceMappingURL={}{}\n", preamble, b64_encode(served.as_bytes()));
            orig_map = Some(ojson.clone());
        }
        3 | 4 | 5 | 6 | 7 => {
            ref_kind = "external-relative";
            let p = join(&dir, url_name);
            fs.nodes.insert(p.clone(), FsNode::Text(served.clone()));
            // a decoy at the path a CWD-relative resolution would use
            if p != url_name {
                let decoy = mapgen::gen_orig_map(&mut rng, &program, &shape);
                fs.nodes.insert(url_name.to_string(), FsNode::Text(decoy.to_json()));
            }
            ref_text = format!("\n//# sourceMappingURL={}\n", url_name);
            orig_map = Some(ojson.clone());
            expected_open = Some(p);
        }
        8 => {
            ref_kind = "external-absolute";
            fs.nodes.insert("/maps/abs.map".into(), FsNode::Text(served.clone()));
            ref_text = "\n//# sourceMappingURL=/maps/abs.map\n".to_string();
            orig_map = Some(ojson.clone());
            expected_open = Some("/maps/abs.map".into());
        }
        9 => {
            ref_kind = "missing";
            ref_text = format!("\n//# sourceMappingURL={}\n", url_name);
            expected_open = Some(join(&dir, url_name));
        }
        10 => {
            ref_kind = "unreadable";
            let p = join(&dir, url_name);
            fs.nodes.insert(p.clone(), if rng.chance(1, 2) { FsNode::Denied } else { FsNode::Dir });
            ref_text = format!("\n//# sourceMappingURL={}\n", url_name);
            expected_open = Some(p);
        }
        11 => {
            ref_kind = "malformed";
            let p = join(&dir, url_name);
            let body = match rng.below(4) {
                0 => half(&ojson),
                // a two-field segment: invalid per the spec (1, 4 or 5 fields)
                1 => ojson.replace("\"mappings\":\"", "\"mappings\":\"AA,"),
                2 => "not json at all".to_string(),
                _ => String::new(),
            };
            fs.nodes.insert(p.clone(), FsNode::Text(body));
            ref_text = format!("\n//# sourceMappingURL={}\n", url_name);
            expected_open = Some(p);
        }
        12 => {
            ref_kind = "index-map";
            let p = join(&dir, url_name);
            let idx = json!({"version": 3, "sections": [{"offset": {"line": 0, "column": 0}, "map": serde_json::from_str::<Value>(&ojson).unwrap()}]});
            fs.nodes.insert(p.clone(), FsNode::Text(idx.to_string()));
            ref_text = format!("\n//# sourceMappingURL={}\n", url_name);
            expected_open = Some(p);
        }
        13 => {
            ref_kind = "inline-bad-base64";
            ref_text = "\n//# sourceMappingURL=data:application/json;base64,@@@@\n".to_string();
        }
        14 => {
            ref_kind = "block-comment-external";
            let p = join(&dir, url_name);
            fs.nodes.insert(p.clone(), FsNode::Text(ojson.clone()));
            ref_text = format!("\n/*# sourceMappingURL={} */\n", url_name);
            // comment text has a trailing blank: "x.map " is trimmed by the rewriter
            orig_map = Some(ojson.clone());
            expected_open = Some(p);
        }
        _ => {
            ref_kind = "none";
            ref_text = String::new();
        }
    }
    // an unreferenced sibling `<file>.map` (a stale build artefact) lies around in some runs
    let sibling = format!("{}.map", file);
    if rng.chance(1, 3) && expected_open.as_deref() != Some(sibling.as_str()) && !fs.nodes.contains_key(&sibling) {
        let decoy = mapgen::gen_orig_map(&mut rng, &program, &shape);
        fs.nodes.insert(sibling, FsNode::Text(decoy.to_json()));
        tags.push("sibling-map-decoy".into());
    }
    if lookalike && !ref_text.is_empty() {
        // literals containing exactly the text of the reference comment
        let inner = ref_text.trim().trim_start_matches("//").trim_start_matches("/*").trim_end_matches("*/").to_string();
        if !inner.contains('"') && !inner.contains('`') && inner.len() < 300 {
            // a regular expression literal too, when the text needs no escaping inside one
            let re = if !inner.contains('/') && !inner.contains('+') && !inner.contains('(') && !inner.contains('[') && !inner.contains('*') && !inner.contains('?') {
                format!("const lookalike3 = /{}/;\n", inner)
            } else {
                String::new()
            };
            program = format!(
                "const lookalike1 = \"//{}\";\nfunction lookalike2(a) {{ return a + `{}` + a; }}\n{}{}",
                inner, inner, re, program
            );
            tags.push("lookalike-literal".into());
        }
    }
    // multi-line program text one of whose lines, taken alone, reads like a reference comment
    let mut planted: Vec<(String, bool)> = Vec::new();
    if rng.chance(1, 5) {
        let url = match rng.below(3) {
            0 => "decoy.js.map".to_string(),
            1 => format!("{}.map", file.rsplit('/').next().unwrap_or("x.js")),
            _ => "data:application/json;base64,e30=".to_string(),
        };
        let mut head = String::new();
        if rng.chance(2, 3) {
            let lit = format!("`first line\n//# sourceMappingURL={}\nlast line`", url);
            head.push_str(&format!("const planted1 = {};\n", lit));
            planted.push((lit, false));
        }
        if rng.chance(1, 2) {
            let lit = format!("`a ${{a}}\n//# sourceMappingURL={}\n${{a}} b`", url);
            head.push_str(&format!("function planted2(a) {{ return {}; }}\n", lit));
            planted.push((format!("\n//# sourceMappingURL={}\n", url), false));
        }
        if rng.chance(1, 2) {
            let c = format!("/* banner\n//# sourceMappingURL={}\n   end of banner */", url);
            head.push_str(&format!("{}\nfunction planted3(a, b) {{ return a + b; }}\n", c));
            planted.push((c, true));
        }
        if rng.chance(1, 3) {
            let c = format!("/*\n//@ sourceMappingURL={}\n*/", url);
            head.push_str(&format!("function planted4(a, b) {{ return a + b; }}\n{}\n", c));
            planted.push((c, true));
        }
        program = format!("{}{}", head, program);
        tags.push("planted-multiline".into());
    }
    // the reference comment is the very last bytes of the file (no final newline) in some runs
    let ref_text = if !ref_text.is_empty() && !lookalike && rng.chance(1, 4) {
        tags.push("ref-at-end-of-file".into());
        ref_text.trim_end_matches('\n').to_string()
    } else {
        ref_text
    };
    tags.push(format!("ref:{ref_kind}"));
    // benign plan: short reads + EINTR
    let mut benign = FaultPlan::default();
    benign.default_chunk = *rng.pick(&[1, 2, 3, 7, 16, 100]);
    let mut reads = Vec::new();
    for _ in 0..rng.range(4, 60) {
        reads.push(if rng.chance(1, 3) { ReadAct::Err(IoKind::Interrupted) } else { ReadAct::Give(rng.range(1, 9)) });
    }
    benign.reads = reads;
    benign.reenter = rng.chance(1, 4);
    if rng.chance(1, 3) {
        benign.open_latency_ms = *rng.pick(&[10, 2500, 90_000]);
        benign.read_latency_ms = *rng.pick(&[1, 800, 5000]);
    }
    // fatal plan: at least one non-retryable fault
    let mut fatal = FaultPlan::default();
    match rng.below(5) {
        0 => fatal.opens = vec![Some(*rng.pick(IoKind::all_open()))],
        1 => {
            // after at least half of the body was delivered
            let n = ojson.len();
            fatal.default_chunk = 16;
            let k = n / 16 / 2 + rng.below(n / 16 / 2 + 1);
            fatal.reads = vec![ReadAct::Give(16); k];
            fatal.reads.push(ReadAct::Err(*rng.pick(&[IoKind::Other, IoKind::UnexpectedEof, IoKind::InvalidData, IoKind::TimedOut, IoKind::WouldBlock])));
        }
        2 => fatal.truncate = Some(rng.below(ojson.len().max(1))),
        3 => {
            fatal.reads = vec![ReadAct::Err(IoKind::Interrupted), ReadAct::Give(3), ReadAct::Eof];
        }
        _ => {
            // flip a structural byte: the closing brace
            fatal.flips = vec![(served.len() - 1, 1)];
        }
    }
    // a reader without a parent folder (file names such as "" or "/", or a reader that cannot tell)
    let parent_none = rng.chance(1, 8);
    if parent_none {
        tags.push("parent:none".into());
        if ref_kind == "external-relative" || ref_kind == "block-comment-external" {
            // nothing to resolve the relative reference against: no usable original map
            orig_map = None;
            expected_open = None;
        }
    }
    // FS history (external usable references only)
    let mut orig_map2 = None;
    let mut fs_history = Vec::new();
    if expected_open.is_some() && orig_map.is_some() {
        let shape2 = mapgen::gen_shape(&mut rng);
        orig_map2 = Some(mapgen::gen_orig_map(&mut rng, &program, &shape2).to_json());
        let states = ["missing", "O", "O2", "denied", "malformed"];
        let n = rng.range(3, 6);
        let mut last = "";
        while fs_history.len() < n {
            let st = *rng.pick(&states);
            if st != last {
                fs_history.push(st.to_string());
                last = st;
            }
        }
    }
    Plan10 {
        log_level: (*rng.pick(&["off", "off", "off", "debug", "trace"])).to_string(),
        parent_none,
        orig_map2,
        fs_history,
        planted,
        file,
        program,
        ref_text,
        ref_kind: ref_kind.to_string(),
        orig_map,
        expected_open,
        fs,
        benign,
        fatal,
        lookalike: tags.iter().any(|t| t == "lookalike-literal"),
        prng_seed: rng.below(100) as u64,
        tags,
    }
}

/// Code part modulo the residue of the removed comment: an emptied comment (`//` up to the end
/// of its line, `/**/`) is dropped wherever the printer placed it, and white space is
/// ignored (applied to both sides alike, so it only loosens layout, never literal content).
fn normalise_code(code: &str) -> String {
    let mut s = String::with_capacity(code.len());
    for l in code.split('\n') {
        let t = l.trim_end();
        let t = t.strip_suffix("//").map(|x| if x.ends_with(':') || x.ends_with('/') { t } else { x }).unwrap_or(t);
        s.push_str(t);
        s.push('\n');
    }
    let s = s.replace("/**/", "").replace("/* */", "");
    // all white space is dropped: layout around the residue differs, content must not
    s.chars().filter(|c| !c.is_whitespace()).collect()
}

/// occurrences of a reference-comment opener anywhere in the code (the printer may put a trailing
/// comment on the same line as the token it follows); compared against the same program without the
/// reference, so look-alike literals cancel out
fn count_ref_comments(code: &str) -> usize {
    code.matches("//# sourceMappingURL=").count() + code.matches("/*# sourceMappingURL=").count()
}

fn value_eq_json(a: &str, b: &str) -> bool {
    match (serde_json::from_str::<Value>(a), serde_json::from_str::<Value>(b)) {
        (Ok(x), Ok(y)) => x == y,
        _ => false,
    }
}

/// K2 (stated as the property states it, by *resolution*): for every generated position q at
/// which either map has a token, looking q up in the chained map T must give the same (source,
/// line, column, name) as looking q up in the rewrite map R and then in the original map O.
/// Lookup = greatest lower bound, first among equals. Positions whose R token has no original
/// (R's source position precedes every token of O) carry no expectation. Redundant tokens may be
/// present or absent in T: only what a position resolves to is compared.
fn check_composition(r: &Map, o: &Map, t: &Map) -> Result<(usize, usize, usize), String> {
    let osorted: Vec<Tok> = o.sorted();
    let rsorted: Vec<Tok> = r.sorted();
    let tsorted: Vec<Tok> = t.sorted();
    let mut positions: BTreeSet<(u32, u32)> = BTreeSet::new();
    for x in &rsorted {
        positions.insert((x.gl, x.gc));
    }
    for x in &tsorted {
        positions.insert((x.gl, x.gc));
    }
    // every token position, and the position one column to its right (inside the segment): a range
    // token resolves the two differently, an ordinary one identically
    let inside: Vec<(u32, u32)> = positions.iter().map(|(l, c)| (*l, *c + 1)).filter(|p| !positions.contains(p)).collect();
    let all_positions: Vec<(u32, u32)> = positions.iter().cloned().chain(inside.into_iter()).collect();
    let (mut with_o, mut without_o) = (0usize, 0usize);
    for (l, c) in all_positions {
        let rt = match Map::glb(&rsorted, l, c) {
            Some(rt) if rt.src.is_some() => rt,
            _ => continue,
        };
        let (ot, osc) = match Map::resolve(&osorted, rt.sl, rt.sc) {
            Some((ot, osc)) if ot.src.is_some() => (ot, osc),
            other => {
                let other = other.map(|x| x.0);
                without_o += 1;
                // the composition yields nothing here: the chained map may not have a sourced token of
                // its own at this very position (what a *lookup* falls back to is not constrained)
                if other.is_some() {
                    // the original map says "unmapped" here (a one-field segment): so must the chained map
                    if let Some((a, _)) = Map::resolve(&tsorted, l, c) {
                        if a.src.is_some() {
                            let asrc = a.src.and_then(|x| t.source_name(x)).unwrap_or_default();
                            return Err(format!(
                                "generated {l}:{c} resolves to {asrc}:{}:{} in the chained map but the original map has a source-less segment at the rewrite map's source position {}:{} (composition: unmapped)",
                                a.sl, a.sc, rt.sl, rt.sc
                            ));
                        }
                    }
                }
                if other.is_none() {
                    // nothing in the original map at or before that position: the composition is "unmapped",
                    // so the chained map must not resolve this generated position to a source either
                    if let Some((a, _)) = Map::resolve(&tsorted, l, c) {
                        if a.src.is_some() && !(a.gl == l && a.gc == c) {
                            let asrc = a.src.and_then(|x| t.source_name(x)).unwrap_or_default();
                            return Err(format!(
                                "generated {l}:{c} resolves to {asrc}:{}:{} in the chained map (inherited from the token at {}:{}) but the original map has no mapping at or before the rewrite map's source position {}:{} (composition: unmapped)",
                                a.sl, a.sc, a.gl, a.gc, rt.sl, rt.sc
                            ));
                        }
                    }
                    if let Some(tt) = tsorted.iter().find(|t| t.gl == l && t.gc == c && t.src.is_some()) {
                        let asrc = tt.src.and_then(|x| t.source_name(x)).unwrap_or_default();
                        return Err(format!(
                            "the chained map has a token at generated {l}:{c} -> {asrc}:{}:{} although the original map has no mapping at or before the rewrite map's source position {}:{}",
                            tt.sl, tt.sc, rt.sl, rt.sc
                        ));
                    }
                }
                continue;
            }
        };
        // a lookup that falls back across lines onto a *range* token has no agreed meaning (the library
        // applies the column offset of another line, wrapping below zero): no expectation there
        if ot.range && ot.gl != rt.sl {
            without_o += 1;
            continue;
        }
        with_o += 1;
        let esrc = ot.src.and_then(|s| o.source_name(s)).unwrap_or_default();
        let ename = ot.name.and_then(|n| o.names.get(n as usize).cloned());
        match Map::resolve(&tsorted, l, c) {
            None => {
                return Err(format!(
                    "generated {l}:{c} resolves to nothing in the chained map but to {esrc}:{}:{} (rewrite map -> {}:{} -> original map)",
                    ot.sl, osc, rt.sl, rt.sc
                ))
            }
            Some((a, asc)) => {
                let asrc = a.src.and_then(|s| t.source_name(s)).unwrap_or_default();
                let aname = a.name.and_then(|n| t.names.get(n as usize).cloned());
                if asrc != esrc || a.sl != ot.sl || asc != osc || aname != ename {
                    return Err(format!(
                        "generated {l}:{c} resolves to {asrc}:{}:{} name={aname:?} in the chained map but composing rewrite map ({}:{}) and original map gives {esrc}:{}:{} name={ename:?}",
                        a.sl, asc, rt.sl, rt.sc, ot.sl, osc
                    ));
                }
            }
        }
    }
    Ok((with_o, without_o, o.sources.len()))
}

impl Engine for C10 {
    fn id(&self) -> &'static str {
        "C10"
    }
    fn level(&self) -> &'static str {
        "exploration"
    }
    fn runs(&self, tier: Tier) -> u64 {
        match tier {
            Tier::Quick => 6000,
            Tier::Thorough => 200_000,
        }
    }
    fn chunk(&self) -> u64 {
        40
    }
    fn plan(&self, seed: u64, run: u64, tier: Tier) -> Value {
        serde_json::to_value(plan10(seed, run, tier)).unwrap()
    }

    fn execute(&self, plan: &Value) -> RunReport {
        let p: Plan10 = match serde_json::from_value(plan.clone()) {
            Ok(p) => p,
            Err(e) => {
                let mut r = RunReport::default();
                r.notes.push(format!("bad plan: {e}"));
                return r;
            }
        };
        exec::install_quiet_panic_hook();
        crate::c16::install_log_sink();
        let want_log = std::env::var("VERIF_LOG").is_ok();
        let mut rep = RunReport::default();
        let mut log: Vec<String> = Vec::new();
        let mut viol: Vec<Violation> = Vec::new();
        let mut events = 0u64;
        let st = |rep: &mut RunReport, k: &str, n: u64| {
            *rep.stats.entry(k.to_string()).or_insert(0) += n;
        };
        let lk = |key: &str, p: &Plan10| -> String {
            // violations that can only come from the look-alike literal are keyed apart (confinement)
            if p.lookalike && key.starts_with("K5") {
                "K5:lookalike-literal".to_string()
            } else {
                key.to_string()
            }
        };
        log::set_max_level(match p.log_level.as_str() {
            "debug" => log::LevelFilter::Debug,
            "trace" => log::LevelFilter::Trace,
            _ => log::LevelFilter::Off,
        });
        if p.log_level == "debug" || p.log_level == "trace" {
            st(&mut rep, "probe:logger-switched-on", 1);
        }
        let mut p = p;
        if p.parent_none {
            p.benign.parent = crate::fsim::ParentMode::ReturnNone;
            p.fatal.parent = crate::fsim::ParentMode::ReturnNone;
        }
        let clean_plan = if p.parent_none {
            let mut c = FaultPlan::clean();
            c.parent = crate::fsim::ParentMode::ReturnNone;
            c
        } else {
            FaultPlan::clean()
        };
        let with_ref = format!("{}{}", p.program, p.ref_text);
        let omap = p.orig_map.as_ref().and_then(|j| Map::parse(j).ok());

        for comments in [false, true] {
            // the program alone (no reference): baseline for text preservation
            let base = run(&cfg_for(false, comments), p.prng_seed, &p.program, &p.file, &p.fs, &FaultPlan::clean());
            events += 1;
            let base = match base {
                Ok(b) => b,
                Err(e) => {
                    // totality is C13's business; here it only ends the run
                    rep.notes.push(format!("baseline failed: {}", e.chars().take(80).collect::<String>()));
                    log.push(format!("baseline comments={comments} failed: {e}"));
                    continue;
                }
            };
            if base.status != "modified" {
                st(&mut rep, "not-modified-skipped", 1);
                continue;
            }
            let base_code = smap::split_trailer(&base.content).map(|(c, _)| c.to_string());
            let mut code_by_chain: Vec<(bool, String)> = Vec::new();
            for chain in [false, true] {
                let cfg = cfg_for(chain, comments);
                let clean = match run(&cfg, p.prng_seed, &with_ref, &p.file, &p.fs, &clean_plan) {
                    Ok(o) => o,
                    Err(e) => {
                        // the program alone was rewritten: with the reference there must be content too
                        viol.push(Violation::new("K1", "K1:no-content", format!("[ref={} chain={chain} comments={comments}] the program alone is rewritten, with the reference comment the call produces no content: {}", p.ref_kind, e.chars().take(160).collect::<String>())));
                        rep.notes.push(format!("clean call failed: {}", e.chars().take(80).collect::<String>()));
                        continue;
                    }
                };
                events += 1;
                let mut regimes: Vec<(&str, Out)> = vec![];
                let external = p.expected_open.is_some() && p.orig_map.is_some();
                if external {
                    if let Ok(o) = run(&cfg, p.prng_seed, &with_ref, &p.file, &p.fs, &p.benign) {
                        regimes.push(("benign", o));
                    }
                    if let Ok(o) = run(&cfg, p.prng_seed, &with_ref, &p.file, &p.fs, &p.fatal) {
                        regimes.push(("fatal", o));
                    }
                    events += 2;
                }
                regimes.insert(0, ("clean", clean));
                let clean_content = regimes[0].1.content.clone();
                for (regime, out) in &regimes {
                    for (k, n) in &out.stats.faults_fired {
                        st(&mut rep, &format!("fault:{k}"), *n as u64);
                    }
                    let tag = format!("ref={} chain={} comments={} regime={}", p.ref_kind, chain, comments, regime);
                    rep.cells.push(format!("{}:{}:{}:{}", p.ref_kind, chain, comments, regime));
                    // K1 trailer
                    let (code, tjson) = match smap::split_trailer(&out.content) {
                        Some(x) => x,
                        None => {
                            viol.push(Violation::new("K1", "K1:no-trailer", format!("[{tag}] content does not end with one inline sourceMappingURL trailer that base64-decodes")));
                            continue;
                        }
                    };
                    let tval: Value = match serde_json::from_str(&tjson) {
                        Ok(v) => v,
                        Err(e) => {
                            viol.push(Violation::new("K1", "K1:trailer-not-json", format!("[{tag}] trailer does not decode to JSON: {e}")));
                            continue;
                        }
                    };
                    if tval.get("version").and_then(|v| v.as_u64()) != Some(3) {
                        viol.push(Violation::new("K1", "K1:trailer-not-v3", format!("[{tag}] trailer map is not version 3")));
                    }
                    let n_base = base_code.as_deref().map(count_ref_comments).unwrap_or(0);
                    let n_ref = count_ref_comments(code).saturating_sub(n_base);
                    if n_ref != 0 {
                        viol.push(Violation::new("K1", "K1:superseded-comment-kept", format!("[{tag}] {} sourceMappingURL comment(s) remain in the code besides the trailer", n_ref)));
                    }
                    // K2 which map
                    let fatal_fired = out.stats.faults_fired.keys().any(|k| k != "read:short" && k != "read:Interrupted" && k != "parent:none");
                    if *regime == "fatal" && !fatal_fired {
                        st(&mut rep, "fatal-plan-did-not-fire", 1);
                    }
                    let usable = chain && p.orig_map.is_some() && !(*regime == "fatal" && fatal_fired);
                    if !usable {
                        if !value_eq_json(&tjson, &out.r) {
                            let why = if !chain { "chaining is off" } else if *regime == "fatal" { "the reader failed" } else { "no usable original map exists" };
                            viol.push(Violation::new("K2", format!("K2:fallback-not-plain-map:{}", if !chain { "chain-off" } else { regime }), format!("[{tag}] {why} but the trailer is not the plain rewrite map: {}", tjson.chars().take(160).collect::<String>())));
                        } else if *regime == "fatal" {
                            st(&mut rep, "probe:fallback-to-plain-map-after-fatal-fault", 1);
                            if out.stats.bytes_served * 2 >= out.stats.body_len && out.stats.body_len > 0 {
                                st(&mut rep, "probe:fatal-fault-after-half-of-body", 1);
                            }
                        }
                    } else {
                        match (Map::parse(&out.r), omap.as_ref(), Map::parse(&tjson)) {
                            (Ok(rm), Some(om), Ok(tm)) => match check_composition(&rm, om, &tm) {
                                Ok((w, wo, ns)) => {
                                    st(&mut rep, "composed-tokens-checked", w as u64);
                                    if wo > 0 {
                                        st(&mut rep, "probe:rewrite-token-without-original", 1);
                                    }
                                    if p.parent_none {
                                        st(&mut rep, "probe:usable-map-without-parent-folder", 1);
                                    }
                                    if ns >= 2 {
                                        st(&mut rep, "probe:composition-with-2+-sources", 1);
                                    }
                                    if !om.names.is_empty() {
                                        st(&mut rep, "probe:composition-with-names", 1);
                                    }
                                    if om.source_root.as_deref().map(|s| !s.is_empty()).unwrap_or(false) {
                                        st(&mut rep, "probe:composition-with-sourceRoot", 1);
                                    }
                                    if om.sources.iter().any(|s| s.is_empty()) {
                                        st(&mut rep, "probe:composition-through-empty-or-null-source-entry", 1);
                                    }
                                    if p.tags.iter().any(|t| t == "O:xssi-guard-line") {
                                        st(&mut rep, "probe:composition-behind-xssi-guard-line", 1);
                                    }
                                }
                                Err(e) => viol.push(Violation::new("K2", "K2:composition", format!("[{tag}] {e}"))),
                            },
                            (r1, _, t1) => viol.push(Violation::new("K2", "K2:unparsable-map", format!("[{tag}] rewrite map ok={} trailer ok={}", r1.is_ok(), t1.is_ok()))),
                        }
                    }
                    // K3 benign = clean
                    if *regime == "benign" {
                        if out.content != clean_content {
                            viol.push(Violation::new("K3", "K3:benign-faults-change-output", format!("[{tag}] short reads / EINTR changed the content ({} bytes vs {})", out.content.len(), clean_content.len())));
                        }
                        if out.stats.faults_fired.contains_key("read:Interrupted") {
                            st(&mut rep, "probe:eintr-during-map-read", 1);
                        }
                    }
                    // K4 path resolution
                    if *regime == "clean" {
                        match &p.expected_open {
                            Some(path) => {
                                // whatever is opened must be the independently resolved path
                                if out.stats.opens.iter().any(|o| o != path) {
                                    viol.push(Violation::new("K4", "K4:wrong-path", format!("[{tag}] reader was asked for {:?}, expected only {path:?} (file {:?})", out.stats.opens, p.file)));
                                }
                            }
                            None => {
                                if out.stats.bytes_served > 0 {
                                    viol.push(Violation::new("K4", "K4:inline-touched-reader", format!("[{tag}] an inline / absent reference read {} bytes from {:?}", out.stats.bytes_served, out.stats.opens)));
                                }
                            }
                        }
                        code_by_chain.push((chain, code.to_string()));
                        // K5 text preservation against the program alone
                        if let Some(bc) = &base_code {
                            let (a, b) = if comments { (normalise_code(code), normalise_code(bc)) } else { (code.to_string(), bc.to_string()) };
                            if a != b {
                                let n = a.bytes().zip(b.bytes()).take_while(|(x, y)| x == y).count();
                                let cut = |s: &str| -> String {
                                    let mut lo = n.saturating_sub(30);
                                    while lo > 0 && !s.is_char_boundary(lo) {
                                        lo -= 1;
                                    }
                                    s[lo..].chars().take(90).collect()
                                };
                                viol.push(Violation::new("K5", lk("K5:text-altered", &p), format!("[{tag}] code differs from the same program without the reference comment at byte {n}: …{}… vs …{}…", cut(&a), cut(&b))));
                            }
                        }
                        if p.lookalike {
                            st(&mut rep, "probe:lookalike-literal-present", 1);
                        }
                        for (text, needs_comments) in &p.planted {
                            if *needs_comments && !comments {
                                continue;
                            }
                            // a (minimised) plan whose program no longer holds the text demands nothing
                            if !p.program.contains(text.as_str()) {
                                continue;
                            }
                            st(&mut rep, "probe:planted-multiline-text-checked", 1);
                            if !code.contains(text.as_str()) {
                                viol.push(Violation::new("K5", "K5:planted-text-altered", format!("[{tag}] program text {:?} is not in the output any more", text)));
                            }
                        }
                    }
                    log.push(format!("{tag} -> status={} opens={:?} reads={} fired={:?} content={:016x}", out.status, out.stats.opens, out.stats.read_calls, out.stats.faults_fired, fnv64(out.content.as_bytes())));
                }
            }
            // K5: code part identical between chain on and off
            if code_by_chain.len() == 2 && code_by_chain[0].1 != code_by_chain[1].1 {
                viol.push(Violation::new("K5", lk("K5:chain-changes-code", &p), format!("[ref={} comments={comments}] the code part differs between chain on and off", p.ref_kind)));
            }
        }
        // K6: FS history - the map file changes between successive calls of one process
        if let (Some(path), Some(o1), Some(o2)) = (&p.expected_open, &p.orig_map, &p.orig_map2) {
            let cfg = cfg_for(true, false);
            let mut prev = "-".to_string();
            for (i, state) in p.fs_history.iter().enumerate() {
                let mut fs = p.fs.clone();
                let expect: Option<&String> = match state.as_str() {
                    "missing" => {
                        fs.nodes.remove(path);
                        None
                    }
                    "O" => {
                        fs.nodes.insert(path.clone(), FsNode::Text(o1.clone()));
                        Some(o1)
                    }
                    "O2" => {
                        fs.nodes.insert(path.clone(), FsNode::Text(o2.clone()));
                        Some(o2)
                    }
                    "denied" => {
                        fs.nodes.insert(path.clone(), FsNode::Denied);
                        None
                    }
                    _ => {
                        fs.nodes.insert(path.clone(), FsNode::Text(half(o1)));
                        None
                    }
                };
                events += 1;
                let out = match run(&cfg, p.prng_seed, &with_ref, &p.file, &fs, &clean_plan) {
                    Ok(o) => o,
                    Err(_) => break,
                };
                if out.status != "modified" {
                    break;
                }
                st(&mut rep, "fs-history-steps", 1);
                rep.cells.push(format!("fs:{prev}>{state}"));
                let tag = format!("fs-history step {i}: map file {prev} -> {state}");
                if let Some((_, tjson)) = smap::split_trailer(&out.content) {
                    match expect {
                        None => {
                            if !value_eq_json(&tjson, &out.r) {
                                viol.push(Violation::new("K6", "K6:stale-map", format!("[{tag}] the map file is now {state} (no usable original map) but the trailer is not the plain rewrite map")));
                            }
                        }
                        Some(oj) => match (Map::parse(&out.r), Map::parse(oj), Map::parse(&tjson)) {
                            (Ok(rm), Ok(om), Ok(tm)) => {
                                if value_eq_json(&tjson, &out.r) {
                                    viol.push(Violation::new("K6", "K6:map-not-used", format!("[{tag}] a readable original map exists now but the plain rewrite map was emitted")));
                                } else if let Err(e) = check_composition(&rm, &om, &tm) {
                                    viol.push(Violation::new("K6", "K6:stale-map", format!("[{tag}] {e}")));
                                }
                            }
                            _ => {}
                        },
                    }
                }
                log.push(format!("{tag} -> opens={:?} content={:016x}", out.stats.opens, fnv64(out.content.as_bytes())));
                prev = state.clone();
            }
            st(&mut rep, "probe:fs-history-run", 1);
        }
        // K8: the library API takes a configuration for each half of the call; whether a map is chained is decided by
        // the one given to print_js - rewriting with chaining and comments off and printing with chaining on must give
        // what one configuration with chaining on gives
        if p.orig_map.is_some() && !p.ref_text.is_empty() {
            let whole = run(&cfg_for(true, false), p.prng_seed, &with_ref, &p.file, &p.fs, &clean_plan).map(|o| (o.status, o.content));
            let split = run_split(&cfg_for(false, false), &cfg_for(true, false), p.prng_seed, &with_ref, &p.file, &p.fs, &clean_plan);
            events += 2;
            if let (Ok((s1, c1)), Ok((s2, c2))) = (&whole, &split) {
                if s1 == "modified" {
                    st(&mut rep, "probe:split-configuration-call", 1);
                }
                if s1 != s2 || c1 != c2 {
                    viol.push(Violation::new("K8", "K8:split-config-differs", format!("[ref={}] rewrite_js with chaining and comments off followed by print_js with chaining on gives another result than both halves with chaining on (status {s2} vs {s1})", p.ref_kind)));
                }
            }
            log.push(format!("split-config: agree={}", whole == split));
        }
        // K7: the repo's real-disk reader over a scratch directory materialised from the simulated FS, the file
        // reached directly or through symbolic links, against the simulated reader on the same (prefixed) names
        if let (Some(path), Some(_)) = (&p.expected_open, &p.orig_map) {
            let simple_nodes = p.fs.nodes.iter().all(|(k, n)| !k.starts_with('/') || !k.contains("..") && !k.contains('\\') && matches!(n, FsNode::Text(_) | FsNode::B64(_) | FsNode::Dir));
            let plain_name = p.file.starts_with('/') && !p.file.starts_with("//") && !p.file.contains('\\') && !p.file.contains("..") && !p.file.ends_with('/');
            if p.ref_kind == "external-relative" && plain_name && simple_nodes && !p.parent_none && path.starts_with('/') && !path.contains("..") && p.fs.nodes.contains_key(path) {
                let sel = fnv64(p.program.as_bytes()) ^ p.prng_seed;
                let root = std::env::temp_dir().join(format!("simrw-k7-{}-{:016x}", std::process::id(), sel));
                let _ = std::fs::remove_dir_all(&root);
                let cfg = cfg_for(true, false);
                match materialise(&root, &p.fs, &p.file, &with_ref, path, sel % 3) {
                    Ok((real_file, variant)) => {
                        let prefix = root.to_string_lossy().to_string();
                        let mut fs2 = FsSpec::default();
                        for (k, n) in &p.fs.nodes {
                            // names relative to the working directory (decoys) stay as they are and are not written to disk
                            fs2.nodes.insert(if k.starts_with('/') { format!("{prefix}{k}") } else { k.clone() }, n.clone());
                        }
                        events += 2;
                        let sim = run(&cfg, p.prng_seed, &with_ref, &real_file, &fs2, &clean_plan).map(|o| (o.status, o.content));
                        let real = run_real(&cfg, p.prng_seed, &with_ref, &real_file);
                        let vname = ["plain-file", "linked-file", "linked-folder"][variant as usize];
                        st(&mut rep, &format!("fault:real-disk:{vname}"), 1);
                        rep.cells.push(format!("real-disk:{vname}"));
                        match (&sim, &real) {
                            (Ok((s1, c1)), Ok((s2, c2))) => {
                                if s1 != s2 || c1 != c2 {
                                    let plain = |c: &str, r: &Result<Out, String>| -> bool { r.as_ref().ok().and_then(|o| smap::split_trailer(c).map(|(_, t)| value_eq_json(&t, &o.r))).unwrap_or(false) };
                                    let o = run(&cfg, p.prng_seed, &with_ref, &real_file, &fs2, &clean_plan);
                                    viol.push(Violation::new("K7", "K7:real-reader-differs", format!("[real disk, {vname}] the repo's DefaultFileReader over a scratch directory holding the same files gives another result than the simulated reader (status {s2} vs {s1}; real result carries the plain rewrite map: {})", plain(c2, &o))));
                                } else if s1 == "modified" {
                                    st(&mut rep, "probe:real-disk-agrees-with-simulated-reader", 1);
                                }
                            }
                            (Err(_), Err(_)) => {}
                            _ => {
                                viol.push(Violation::new("K7", "K7:real-reader-differs", format!("[real disk, {vname}] one of the real and the simulated reader fails, the other does not: real={:?} sim={:?}", real.as_ref().map(|x| &x.0), sim.as_ref().map(|x| &x.0))));
                            }
                        }
                        log.push(format!("real-disk {vname}: agree={}", sim == real));
                    }
                    Err(e) => {
                        rep.notes.push(format!("K7 scratch directory not built: {}", e.kind()));
                    }
                }
                let _ = std::fs::remove_dir_all(&root);
            }
        }
        log::set_max_level(log::LevelFilter::Off);
        let mut seen = BTreeSet::new();
        viol.retain(|v| seen.insert(v.key.clone()));
        rep.violations = viol;
        rep.events = events;
        let shape = fnv64(format!("{:?}|{}|{}|{:?}|{:?}|{:?}", p.tags, p.benign.default_chunk, p.fatal.opens.len(), p.fatal.truncate.is_some(), p.fatal.flips.len(), p.fs_history).as_bytes());
        rep.shapes.push(mix(shape, fnv64(p.ref_kind.as_bytes())));
        rep.log_digest = fnv64(log.join("\n").as_bytes());
        if want_log {
            rep.log = Some(log);
        }
        rep
    }

    fn shrink(&self, plan: &Value) -> Vec<Value> {
        let p: Plan10 = match serde_json::from_value(plan.clone()) {
            Ok(p) => p,
            Err(_) => return vec![],
        };
        let mut out: Vec<Plan10> = Vec::new();
        // drop line ranges of the program (the original map keeps its positions: still a valid O)
        let lines: Vec<&str> = p.program.split('\n').collect();
        let n = lines.len();
        let mut w = n / 2;
        while w >= 1 {
            let mut a = 0;
            while a < n {
                let b = (a + w).min(n);
                let kept: Vec<&str> = lines.iter().enumerate().filter(|(i, _)| *i < a || *i >= b).map(|(_, l)| *l).collect();
                let mut q = p.clone();
                q.program = kept.join("\n");
                out.push(q);
                a += w;
            }
            if w == 1 {
                break;
            }
            w /= 2;
        }
        out.truncate(160);
        if !p.benign.reads.is_empty() {
            let mut q = p.clone();
            q.benign.reads.clear();
            out.push(q);
        }
        // fewer tokens in O
        if let Some(oj) = &p.orig_map {
            if let Ok(m) = Map::parse(oj) {
                if m.toks.len() > 2 && matches!(p.ref_kind.as_str(), "inline" | "external-relative" | "external-absolute" | "block-comment-external") {
                    for half in 0..2 {
                        let mut m2 = m.clone();
                        let k = m2.toks.len() / 2;
                        if half == 0 {
                            m2.toks.truncate(k);
                        } else {
                            m2.toks.drain(0..k);
                        }
                        let j = m2.to_json();
                        let mut q = p.clone();
                        q.orig_map = Some(j.clone());
                        if p.ref_kind == "inline" {
                            q.ref_text = format!("\n//# sourceMappingURL=data:application/json;base64,{}\n", b64_encode(j.as_bytes()));
                        } else if let Some(path) = &p.expected_open {
                            q.fs.nodes.insert(path.clone(), FsNode::Text(j));
                        }
                        out.push(q);
                    }
                }
            }
        }
        out.into_iter().map(|q| serde_json::to_value(q).unwrap()).collect()
    }

    fn summarise(&self, plan: &Value) -> Value {
        let p: Plan10 = match serde_json::from_value(plan.clone()) {
            Ok(p) => p,
            Err(_) => return Value::Null,
        };
        json!({
            "file": p.file, "ref_kind": p.ref_kind, "tags": p.tags, "program_bytes": p.program.len(),
            "ref_text": p.ref_text.chars().take(100).collect::<String>(),
            "expected_open": p.expected_open, "fs": p.fs.nodes.keys().collect::<Vec<_>>(),
            "orig_map_tokens": p.orig_map.as_ref().and_then(|j| Map::parse(j).ok()).map(|m| m.toks.len()),
            "benign": {"chunk": p.benign.default_chunk, "reads": p.benign.reads.len()},
            "fatal": {"opens": p.fatal.opens, "reads": p.fatal.reads.len(), "truncate": p.fatal.truncate, "flips": p.fatal.flips},
            "matrix": "{chain on/off} x {comments on/off} x {clean, benign, fatal} + program without reference"
        })
    }

    fn rule(&self) -> String {
        "a case is one (program, file, original map O, reference kind, FS state, benign fault plan, fatal fault plan) executed under the matrix {chain on,off} x {comments on,off} x regimes {clean, benign-only, fatal} (regimes run separately) plus the program without the reference; oracles K1 trailer, K2 composition (independent VLQ codec + greatest-lower-bound lookup) or plain-map fallback, K3 benign=clean bytes, K4 resolved path, K5 text preservation, K6 FS history (the map file goes missing / O / O2 / denied / malformed between successive calls; each call must reflect the current state), K7 real disk (for plain POSIX names with a relative external reference the simulated FS is written to a scratch directory - the file as a plain file, as a symbolic link to a file stored in another folder with the map beside the link, or inside a symbolically linked folder - and the repo's DefaultFileReader must produce the byte-identical result to the simulated reader on the same names), K8 split configuration (rewrite_js with chaining and comments off, print_js with chaining on = both with chaining on). distinct = hash of (O shape, reference kind, look-alike flag, fault plan shape); every case is non-trivial (at least 6 real rewrites, faults injected whenever the reference is external)".into()
    }

    fn components(&self) -> Value {
        json!({
            "real": ["rewrite_js", "print_js", "extract_source_map", "chain_source_maps", "RewriterConfig::to_config", "FileReader::parent (trait default)", "swc codegen source maps", "sourcemap crate (decode, lookup_token, SourceMapBuilder)", "base64"],
            "stub": ["WasmFileReader (SimFileReader over a simulated FS; DefaultFileReader::read is replaced the same way everywhere except K7)", "wasm-bindgen glue"],
            "real in K7 only": ["DefaultFileReader (File::open + its parent()) over a scratch directory with symbolic links, as a differential against the simulated reader"],
            "oracle (harness-own)": ["VLQ codec", "source-map JSON decode", "greatest-lower-bound lookup", "sourceRoot application", "base64", "path join"]
        })
    }

    fn assumptions(&self) -> Vec<String> {
        vec![
            "'looking it up' means the greatest-lower-bound token over (line, column) lexicographically, first among equals - the semantics of the library the product uses; original maps are generated without duplicate generated positions and without range mappings so this has one meaning".into(),
            "sourceRoot is applied as the source-map spec says (prefix unless the source is absolute)".into(),
            "the reference comment is the last thing in the file (a reference followed by code is not a reference; that shape is covered for totality under C13)".into(),
            "after a fatal reader fault only the stated relaxation applies: the plain rewrite map must be emitted".into(),
        ]
    }

    fn expected_probes(&self) -> Vec<&'static str> {
        vec![
            "probe:composition-with-2+-sources",
            "probe:composition-with-names",
            "probe:composition-with-sourceRoot",
            "probe:rewrite-token-without-original",
            "probe:lookalike-literal-present",
            "probe:fallback-to-plain-map-after-fatal-fault",
            "probe:fatal-fault-after-half-of-body",
            "probe:eintr-during-map-read",
            "probe:fs-history-run",
            "probe:real-disk-agrees-with-simulated-reader",
            "probe:split-configuration-call",
            "probe:usable-map-without-parent-folder",
            "probe:logger-switched-on",
            "probe:composition-through-empty-or-null-source-entry",
            "probe:composition-behind-xssi-guard-line",
        ]
    }
}
