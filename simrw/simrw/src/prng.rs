//! Own PRNG (xoshiro256**) and seed mixing. One integer (VERIF_SEED) decides everything.

#[derive(Clone, Debug)]
pub struct Rng {
    s: [u64; 4],
}

fn splitmix(x: &mut u64) -> u64 {
    *x = x.wrapping_add(0x9E37_79B9_7F4A_7C15);
    let mut z = *x;
    z = (z ^ (z >> 30)).wrapping_mul(0xBF58_476D_1CE4_E5B9);
    z = (z ^ (z >> 27)).wrapping_mul(0x94D0_49BB_1331_11EB);
    z ^ (z >> 31)
}

/// Deterministic mixing of two integers into a sub-seed.
pub fn mix(a: u64, b: u64) -> u64 {
    let mut x = a ^ b.rotate_left(32) ^ 0xD1B5_4A32_D192_ED03;
    let r1 = splitmix(&mut x);
    x ^= b.wrapping_mul(0x2545_F491_4F6C_DD1D);
    let r2 = splitmix(&mut x);
    r1 ^ r2.rotate_left(17)
}

pub fn mix_str(a: u64, s: &str) -> u64 {
    mix(a, fnv64(s.as_bytes()))
}

pub fn fnv64(b: &[u8]) -> u64 {
    let mut h: u64 = 0xcbf2_9ce4_8422_2325;
    for &c in b {
        h ^= c as u64;
        h = h.wrapping_mul(0x0000_0100_0000_01B3);
    }
    h
}

impl Rng {
    pub fn new(seed: u64) -> Rng {
        let mut x = seed;
        let s = [
            splitmix(&mut x),
            splitmix(&mut x),
            splitmix(&mut x),
            splitmix(&mut x),
        ];
        Rng { s }
    }

    pub fn next_u64(&mut self) -> u64 {
        let result = self.s[1].wrapping_mul(5).rotate_left(7).wrapping_mul(9);
        let t = self.s[1] << 17;
        self.s[2] ^= self.s[0];
        self.s[3] ^= self.s[1];
        self.s[1] ^= self.s[2];
        self.s[0] ^= self.s[3];
        self.s[2] ^= t;
        self.s[3] = self.s[3].rotate_left(45);
        result
    }

    /// uniform in 0..n (n > 0)
    pub fn below(&mut self, n: usize) -> usize {
        if n <= 1 {
            return 0;
        }
        (self.next_u64() % (n as u64)) as usize
    }

    /// uniform in lo..=hi
    pub fn range(&mut self, lo: usize, hi: usize) -> usize {
        if hi <= lo {
            return lo;
        }
        lo + self.below(hi - lo + 1)
    }

    /// true with probability num/den
    pub fn chance(&mut self, num: usize, den: usize) -> bool {
        self.below(den) < num
    }

    pub fn pick<'a, T>(&mut self, xs: &'a [T]) -> &'a T {
        &xs[self.below(xs.len())]
    }

    /// weighted pick: returns index
    pub fn weighted(&mut self, w: &[usize]) -> usize {
        let total: usize = w.iter().sum();
        if total == 0 {
            return 0;
        }
        let mut r = self.below(total);
        for (i, &x) in w.iter().enumerate() {
            if r < x {
                return i;
            }
            r -= x;
        }
        w.len() - 1
    }

    /// A side stream derived from the current state WITHOUT advancing it: additions to a generator that
    /// draw from it leave every choice the generator made before (and makes afterwards) as it was.
    pub fn side(&self, tag: u64) -> Rng {
        Rng::new(mix(self.s[0] ^ self.s[1].rotate_left(17) ^ self.s[3].rotate_left(41), tag))
    }

    pub fn fork(&mut self, tag: u64) -> Rng {
        Rng::new(mix(self.next_u64(), tag))
    }
}

// ---------------------------------------------------------------------------------------------
// own base64 (std alphabet, padded) so that oracles do not depend on the crate under test

const B64: &[u8; 64] = b"ABCDEFGHIJKLMNOPQRSTUVWXYZabcdefghijklmnopqrstuvwxyz0123456789+/";

pub fn b64_encode(data: &[u8]) -> String {
    let mut out = String::with_capacity((data.len() + 2) / 3 * 4);
    for chunk in data.chunks(3) {
        let b = [
            chunk[0],
            if chunk.len() > 1 { chunk[1] } else { 0 },
            if chunk.len() > 2 { chunk[2] } else { 0 },
        ];
        out.push(B64[(b[0] >> 2) as usize] as char);
        out.push(B64[(((b[0] & 3) << 4) | (b[1] >> 4)) as usize] as char);
        if chunk.len() > 1 {
            out.push(B64[(((b[1] & 15) << 2) | (b[2] >> 6)) as usize] as char);
        } else {
            out.push('=');
        }
        if chunk.len() > 2 {
            out.push(B64[(b[2] & 63) as usize] as char);
        } else {
            out.push('=');
        }
    }
    out
}

pub fn b64_decode(s: &str) -> Option<Vec<u8>> {
    let mut out = Vec::with_capacity(s.len() / 4 * 3);
    let mut acc: u32 = 0;
    let mut bits = 0;
    let mut pad = 0;
    for c in s.bytes() {
        let v = match c {
            b'A'..=b'Z' => c - b'A',
            b'a'..=b'z' => c - b'a' + 26,
            b'0'..=b'9' => c - b'0' + 52,
            b'+' => 62,
            b'/' => 63,
            b'=' => {
                pad += 1;
                continue;
            }
            _ => return None,
        };
        if pad > 0 {
            return None;
        }
        acc = (acc << 6) | v as u32;
        bits += 6;
        if bits >= 8 {
            bits -= 8;
            out.push((acc >> bits) as u8);
            acc &= (1 << bits) - 1;
        }
    }
    Some(out)
}
