//! Seeded generator of JavaScript source text (workloads for C16 / C13 / C10). Text only: these
//! programs are rewritten, never executed, so only syntactic validity matters.

use crate::prng::Rng;

#[derive(Clone, Debug)]
pub struct GenOpts {
    /// number of top-level items (functions / classes / statements)
    pub items: usize,
    /// statements per block (upper bound)
    pub stmts: usize,
    /// expression depth
    pub depth: usize,
    /// emit instrumentable operations (+, +=, templates with substitutions, configured methods)
    pub ops: bool,
    pub module: bool,
    pub strict: bool,
    pub comments: bool,
    pub crlf: bool,
    pub unicode: bool,
    /// method names that the configuration instruments
    pub methods: Vec<String>,
    /// long string literals (reported by the literal visitor)
    pub long_literals: bool,
}

impl GenOpts {
    pub fn small() -> GenOpts {
        GenOpts {
            items: 3,
            stmts: 4,
            depth: 3,
            ops: true,
            module: false,
            strict: false,
            comments: false,
            crlf: false,
            unicode: false,
            methods: default_methods(),
            long_literals: true,
        }
    }
}

pub fn default_methods() -> Vec<String> {
    ["substring", "trim", "trimStart", "trimEnd", "concat", "slice", "replace"]
        .iter()
        .map(|s| s.to_string())
        .collect()
}

pub struct JsGen<'a> {
    rng: &'a mut Rng,
    o: GenOpts,
    out: String,
    indent: usize,
    uniq: usize,
    in_async: bool,
    in_gen: bool,
    in_loop: usize,
    in_switch: usize,
    in_fn: usize,
    allow_return: bool,
    next_noret: bool,
    params_simple: bool,
    pub ops_emitted: usize,
}

const IDS: &[&str] = &["a", "b", "c", "s", "t"];
const WORDS: &[&str] = &[
    "alpha", "beta", "gamma", "delta", "user", "name", "select * from t where id = ",
    "hello world", "/tmp/path/to", "x", "", " ", "0", "-", "key=", "http://example.com/?q=",
];
const UNI: &[&str] = &["h\u{e9}llo", "\u{4f60}\u{597d}", "\u{1F600} smile", "na\u{ef}ve \u{2603}"];

impl<'a> JsGen<'a> {
    pub fn new(rng: &'a mut Rng, o: GenOpts) -> JsGen<'a> {
        JsGen {
            rng,
            o,
            out: String::new(),
            indent: 0,
            uniq: 0,
            in_async: false,
            in_gen: false,
            in_loop: 0,
            in_switch: 0,
            in_fn: 0,
            allow_return: true,
            next_noret: false,
            params_simple: true,
            ops_emitted: 0,
        }
    }

    fn line(&mut self, s: &str) {
        for _ in 0..self.indent {
            self.out.push_str("  ");
        }
        self.out.push_str(s);
        self.out.push('\n');
    }

    fn fresh(&mut self, p: &str) -> String {
        self.uniq += 1;
        format!("{}{}", p, self.uniq)
    }

    fn strlit(&mut self) -> String {
        let w = if self.o.unicode && self.rng.chance(1, 3) {
            self.rng.pick(UNI).to_string()
        } else if self.o.long_literals && self.rng.chance(1, 6) {
            format!("long literal number {} for the report", self.rng.below(5))
        } else {
            self.rng.pick(WORDS).to_string()
        };
        match self.rng.below(3) {
            0 => format!("'{}'", w.replace('\'', "\\'")),
            1 => format!("\"{}\"", w.replace('"', "\\\"")),
            _ => format!("'{}'", w.replace('\'', "\\'")),
        }
    }

    fn atom(&mut self) -> String {
        match self.rng.below(14) {
            0..=4 => self.rng.pick(IDS).to_string(),
            5 => "o.p".into(),
            6 => "o.q.r".into(),
            7 => "arr[0]".into(),
            8 | 9 => self.strlit(),
            10 => format!("{}", self.rng.below(100)),
            11 => "`plain`".into(),
            12 => {
                if self.in_fn > 0 {
                    "this.v".into()
                } else {
                    "null".into()
                }
            }
            _ => "undefined".into(),
        }
    }

    fn method(&mut self) -> String {
        if self.o.methods.is_empty() {
            "trim".into()
        } else {
            self.rng.pick(&self.o.methods).clone()
        }
    }

    fn args_for(&mut self, m: &str, d: usize) -> String {
        match m {
            "substring" | "slice" | "substr" => {
                if self.rng.chance(1, 2) {
                    format!("{}", self.rng.below(4))
                } else {
                    format!("{}, {}", self.rng.below(3), self.expr(d))
                }
            }
            "concat" => {
                let n = self.rng.range(1, 3);
                let mut v = Vec::new();
                for _ in 0..n {
                    if self.rng.chance(1, 8) {
                        v.push("...arr".to_string());
                    } else {
                        v.push(self.expr(d));
                    }
                }
                v.join(", ")
            }
            "replace" | "replaceAll" => format!("{}, {}", self.expr(d), self.expr(d)),
            "padStart" | "padEnd" => format!("{}, {}", self.rng.range(1, 9), self.expr(d)),
            "repeat" => format!("{}", self.rng.range(1, 3)),
            "join" => self.expr(d),
            _ => {
                if self.rng.chance(1, 2) {
                    String::new()
                } else {
                    self.expr(d)
                }
            }
        }
    }

    pub fn expr(&mut self, d: usize) -> String {
        if d == 0 {
            return self.atom();
        }
        let d1 = d - 1;
        let op_w = if self.o.ops { 10 } else { 0 };
        let k = self.rng.weighted(&[4, op_w, 6]);
        match k {
            0 => self.atom(),
            1 => {
                self.ops_emitted += 1;
                match self.rng.below(16) {
                    0..=3 => format!("{} + {}", self.expr(d1), self.expr(d1)),
                    4 => format!("({} + {}) + {}", self.expr(d1), self.expr(d1), self.atom()),
                    5 | 6 => {
                        let n = self.rng.range(1, 3);
                        let mut s = String::from("`");
                        for i in 0..n {
                            s.push_str(["pre ", "", "-", " mid "][self.rng.below(4)]);
                            let e = if self.rng.chance(1, 5) { self.atom() } else { self.expr(d1) };
                            s.push_str(&format!("${{{}}}", e));
                            if i + 1 == n {
                                s.push_str(["", " end", "!"][self.rng.below(3)]);
                            }
                        }
                        s.push('`');
                        s
                    }
                    7 | 8 => {
                        let m = self.method();
                        let recv = match self.rng.below(6) {
                            0 => self.rng.pick(IDS).to_string(),
                            1 => "o.p".to_string(),
                            2 => format!("fn0({})", self.expr(d1)),
                            3 => format!("({})", self.expr(d1)),
                            4 => format!("[{}]", self.expr(d1)),
                            _ => "o.q.r".to_string(),
                        };
                        let a = self.args_for(&m, d1);
                        format!("{}.{}({})", recv, m, a)
                    }
                    9 => {
                        let a = self.args_for("concat", d1);
                        format!("{}.concat({})", self.strlit(), a)
                    }
                    10 => {
                        let m = self.method();
                        let a = self.args_for(&m, d1);
                        let sep = if a.is_empty() { "" } else { ", " };
                        format!("String.prototype.{}.call({}{}{})", m, self.expr(d1), sep, a)
                    }
                    11 => {
                        let m = self.method();
                        format!(
                            "String.prototype.{}.apply({}, [{}, {}])",
                            m,
                            self.expr(d1),
                            self.expr(d1),
                            self.atom()
                        )
                    }
                    12 => {
                        let m = self.method();
                        let a = self.args_for(&m, d1);
                        match self.rng.below(3) {
                            0 => format!("o?.p?.{}({})", m, a),
                            1 => format!("s?.{}({})", m, a),
                            _ => format!("o.q?.r.{}?.({})", m, a),
                        }
                    }
                    13 => format!("(s += {})", self.expr(d1)),
                    14 => format!("(o.p += {})", self.expr(d1)),
                    _ => format!("(arr[{}] += {})", self.rng.below(2), self.expr(d1)),
                }
            }
            _ => match self.rng.below(22) {
                0 => format!("{} * {}", self.atom(), self.atom()),
                1 => format!("{} - {}", self.expr(d1), self.atom()),
                2 => {
                    // a plain call whose name is also a configured method name (`trim(x)` next to `s.trim()`)
                    if self.rng.chance(1, 3) {
                        let m = self.method();
                        format!("{}({})", m, self.expr(d1))
                    } else {
                        format!("fn0({})", self.expr(d1))
                    }
                }
                3 => format!("({} ? {} : {})", self.expr(d1), self.expr(d1), self.expr(d1)),
                4 => format!("typeof {}", self.atom()),
                5 => format!("!{}", self.atom()),
                6 => format!("({}, {})", self.expr(d1), self.expr(d1)),
                7 => format!("[{}, {}]", self.expr(d1), self.expr(d1)),
                8 => format!("({{ k: {}, [{}]: 1 }})", self.expr(d1), self.atom()),
                9 => {
                    let (sa, sg) = (self.in_async, self.in_gen);
                    self.in_async = false;
                    self.in_gen = false;
                    let e = self.expr(d1);
                    self.in_async = sa;
                    self.in_gen = sg;
                    format!("(() => {})", e)
                }
                10 => {
                    let (sa, sg) = (self.in_async, self.in_gen);
                    self.in_async = false;
                    self.in_gen = false;
                    let e = self.expr(d1);
                    self.in_async = sa;
                    self.in_gen = sg;
                    format!("(function (a) {{ return {}; }})", e)
                }
                11 => format!("new Error({})", self.expr(d1)),
                12 => format!("o.other({})", self.expr(d1)),
                13 => {
                    if self.in_async {
                        format!("(await {})", self.expr(d1))
                    } else if self.in_gen {
                        format!("(yield {})", self.expr(d1))
                    } else {
                        format!("({} || {})", self.expr(d1), self.atom())
                    }
                }
                14 => format!("o[{}]", self.expr(d1)),
                15 => format!("({} ?? {})", self.atom(), self.expr(d1)),
                16 => "delete o.p".to_string(),
                17 => format!("void {}", self.atom()),
                18 => format!("{}.length", self.atom()),
                19 => format!("(t = {})", self.expr(d1)),
                20 => format!("tag`x${{{}}}y`", self.expr(d1)),
                _ => "/ab+c/g.test(s)".to_string(),
            },
        }
    }

    fn comment(&mut self) {
        if self.o.comments && self.rng.chance(1, 3) {
            match self.rng.below(3) {
                0 => self.line("// a line comment"),
                1 => self.line("/* a block comment */"),
                _ => {
                    self.line("/**");
                    self.line(" * doc comment");
                    self.line(" */");
                }
            }
        }
    }

    fn block(&mut self, d: usize) {
        self.indent += 1;
        let n = self.rng.range(1, self.o.stmts.max(1));
        for _ in 0..n {
            self.stmt(d);
        }
        self.indent -= 1;
    }

    fn fn_body(&mut self, d: usize, is_async: bool, is_gen: bool) {
        let (sa, sg, sl, ss) = (self.in_async, self.in_gen, self.in_loop, self.in_switch);
        let ar = self.allow_return;
        self.allow_return = !self.next_noret;
        self.next_noret = false;
        let simple = self.params_simple;
        self.params_simple = true;
        self.in_async = is_async;
        self.in_gen = is_gen;
        self.in_loop = 0;
        self.in_switch = 0;
        self.in_fn += 1;
        self.indent += 1;
        if self.o.strict && self.allow_return && simple && self.rng.chance(1, 4) {
            self.line("'use strict';");
        }
        if self.o.unicode && self.rng.chance(1, 2) {
            // non-ASCII identifiers end up in the `names` of the rewrite map
            self.line("let s = 'x', t = \"y\", o = { p: a, q: { r: b } }, arr = [a, b], a\u{f1}adir\u{4f60}\u{597d} = a + b, caf\u{e9} = a\u{f1}adir\u{4f60}\u{597d} + t;");
        } else {
            self.line("let s = 'x', t = \"y\", o = { p: a, q: { r: b } }, arr = [a, b];");
        }
        let mut side = self.rng.side(0x1ade);
        if self.o.unicode && side.chance(1, 3) {
            // a ladder of identifiers whose first multi-byte character starts at every byte offset 1..=20
            // (2-, 3- and 4-byte characters): byte-offset arithmetic on identifiers meets every boundary
            let ch = *side.pick(&["\u{e9}", "\u{4f60}", "\u{1d465}"]);
            let mut decl = String::from("let ");
            for k in 1..=20usize {
                if k > 1 {
                    decl.push_str(", ");
                }
                let pre: String = "compteur_variable_longue"[..k].to_string();
                decl.push_str(&format!("{pre}{ch}t{ch} = a + b"));
            }
            decl.push(';');
            self.line(&decl);
        }
        self.indent -= 1;
        self.block(d);
        self.in_fn -= 1;
        self.allow_return = ar;
        self.in_async = sa;
        self.in_gen = sg;
        self.in_loop = sl;
        self.in_switch = ss;
    }

    fn params(&mut self) -> String {
        let k = self.rng.below(6);
        self.params_simple = k == 0 || k == 5 || (k == 4 && !self.o.ops);
        match k {
            0 => "a, b, c".into(),
            1 => "a, b = 'd', c".into(),
            2 => "a, b, ...c".into(),
            3 => "a, { b, c } = {}".into(),
            4 => {
                if self.o.ops {
                    self.ops_emitted += 1;
                    "a, b = a + 'd', c".into()
                } else {
                    "a, b, c".into()
                }
            }
            _ => "a, b, c".into(),
        }
    }

    pub fn function(&mut self, name: &str, d: usize, export: bool) {
        let k = self.rng.below(6);
        let (is_async, is_gen) = match k {
            0 => (true, false),
            1 => (false, true),
            2 => (true, true),
            _ => (false, false),
        };
        let p = self.params();
        let head = format!(
            "{}{}function{} {}({}) {{",
            if export { "export " } else { "" },
            if is_async { "async " } else { "" },
            if is_gen { "*" } else { "" },
            name,
            p
        );
        self.line(&head);
        self.fn_body(d, is_async, is_gen);
        self.line("}");
    }

    fn class(&mut self, name: &str, d: usize) {
        let ext = if self.rng.chance(1, 4) { " extends Base" } else { "" };
        self.line(&format!("class {}{} {{", name, ext));
        self.indent += 1;
        let n = self.rng.range(1, 4);
        let mut has_ctor = false;
        for _ in 0..n {
            let mut pick = self.rng.below(8);
            if pick == 2 {
                if has_ctor {
                    pick = 7;
                }
                has_ctor = true;
            }
            match pick {
                0 => {
                    let e = self.with_fn_ctx(|g| g.expr(d.min(2)));
                    self.line(&format!("static sf{} = {};", self.uniq, e));
                    self.uniq += 1;
                }
                1 => {
                    let e = self.with_fn_ctx(|g| g.expr(d.min(2)));
                    self.line(&format!("f{} = {};", self.uniq, e));
                    self.uniq += 1;
                }
                2 => {
                    self.line(&format!(
                        "constructor(a, b, c) {{{}",
                        if ext.is_empty() { "" } else { " super();" }
                    ));
                    self.fn_body(d, false, false);
                    self.line("}");
                }
                3 => {
                    let m = self.fresh("get g");
                    self.line(&format!("{}() {{", m));
                    self.indent += 1;
                    self.line("let a = this.a, b = this.b, c = 1;");
                    self.indent -= 1;
                    self.fn_body(d, false, false);
                    self.line("}");
                }
                4 => {
                    self.line("static {");
                    self.indent += 1;
                    self.line("let a = 1, b = 'sb', c = 2;");
                    self.indent -= 1;
                    self.next_noret = true;
                    self.fn_body(d, false, false);
                    self.line("}");
                }
                5 => {
                    let m = self.fresh("async am");
                    self.line(&format!("{}(a, b, c) {{", m));
                    self.fn_body(d, true, false);
                    self.line("}");
                }
                6 => {
                    let m = self.fresh("*gm");
                    self.line(&format!("{}(a, b, c) {{", m));
                    self.fn_body(d, false, true);
                    self.line("}");
                }
                _ => {
                    let m = self.fresh("m");
                    let p = self.params();
                    self.line(&format!("{}({}) {{", m, p));
                    self.fn_body(d, false, false);
                    self.line("}");
                }
            }
        }
        self.indent -= 1;
        self.line("}");
    }

    fn with_fn_ctx<T>(&mut self, f: impl FnOnce(&mut Self) -> T) -> T {
        let (sa, sg) = (self.in_async, self.in_gen);
        self.in_async = false;
        self.in_gen = false;
        self.in_fn += 1;
        let r = f(self);
        self.in_fn -= 1;
        self.in_async = sa;
        self.in_gen = sg;
        r
    }

    pub fn stmt(&mut self, d: usize) {
        self.comment();
        let ed = self.o.depth;
        let nest_w = if d > 0 { 3 } else { 0 };
        let k = self.rng.weighted(&[
            6,      // 0 decl
            6,      // 1 expr stmt
            nest_w, // 2 if
            nest_w, // 3 loops
            nest_w / 2 + (nest_w > 0) as usize, // 4 switch
            nest_w / 2 + (nest_w > 0) as usize, // 5 try
            2,      // 6 return/throw
            nest_w / 2, // 7 nested fn
            nest_w / 3, // 8 nested class
            nest_w / 2, // 9 block / label
            1,      // 10 break/continue
        ]);
        match k {
            0 => {
                let kw = *self.rng.pick(&["let", "const", "var"]);
                let v = self.fresh("v");
                let e = self.expr(ed);
                self.line(&format!("{} {} = {};", kw, v, e));
            }
            1 => {
                let e = self.expr(ed);
                // avoid statements that start with `{`, `function`, `class`, `let[`
                if e.starts_with('{') || e.starts_with("function") || e.starts_with("class") {
                    self.line(&format!("({});", e));
                } else {
                    let semi = if self.rng.chance(1, 8) && !e.starts_with(['(', '[', '`', '/', '+', '-']) {
                        ";"
                    } else {
                        ";"
                    };
                    self.line(&format!("{}{}", e, semi));
                }
            }
            2 => {
                let c = self.expr(ed.min(2));
                if self.rng.chance(1, 3) {
                    let e1 = self.expr(ed.min(2));
                    self.line(&format!("if ({}) t = {};", c, e1));
                    if self.rng.chance(1, 2) {
                        let e2 = self.expr(ed.min(2));
                        self.line(&format!("else t = {};", e2));
                    }
                } else {
                    self.line(&format!("if ({}) {{", c));
                    self.block(d - 1);
                    if self.rng.chance(1, 2) {
                        if self.rng.chance(1, 3) {
                            let c2 = self.expr(ed.min(2));
                            self.line(&format!("}} else if ({}) {{", c2));
                            self.block(d - 1);
                        }
                        self.line("} else {");
                        self.block(d - 1);
                    }
                    self.line("}");
                }
            }
            3 => {
                self.in_loop += 1;
                match self.rng.below(5) {
                    0 => {
                        let i = self.fresh("i");
                        self.line(&format!("for (let {i} = 0; {i} < 2; {i}++) {{"));
                        self.block(d - 1);
                        self.line("}");
                    }
                    1 => {
                        let x = self.fresh("x");
                        let e = self.expr(ed.min(2));
                        let aw = if self.in_async && self.rng.chance(1, 3) { " await" } else { "" };
                        self.line(&format!("for{} (const {} of [{}, b]) {{", aw, x, e));
                        self.block(d - 1);
                        self.line("}");
                    }
                    2 => {
                        let k = self.fresh("k");
                        self.line(&format!("for (const {} in o) {{", k));
                        self.block(d - 1);
                        self.line("}");
                    }
                    3 => {
                        let c = self.expr(ed.min(2));
                        self.line(&format!("while ({}) {{", c));
                        self.block(d - 1);
                        self.indent += 1;
                        self.line("break;");
                        self.indent -= 1;
                        self.line("}");
                    }
                    _ => {
                        self.line("do {");
                        self.block(d - 1);
                        let c = self.expr(ed.min(1));
                        self.line(&format!("}} while (!1 && {});", c));
                    }
                }
                self.in_loop -= 1;
            }
            4 => {
                let c = self.expr(ed.min(2));
                self.line(&format!("switch ({}) {{", c));
                self.in_switch += 1;
                self.indent += 1;
                let n = self.rng.range(1, 3);
                for i in 0..n {
                    let l = self.strlit();
                    self.line(&format!("case {}:", if i == 0 { l } else { format!("{}", i) }));
                    self.block(d - 1);
                    if self.rng.chance(2, 3) {
                        self.indent += 1;
                        self.line("break;");
                        self.indent -= 1;
                    }
                }
                if self.rng.chance(1, 2) {
                    self.line("default: {");
                    self.block(d - 1);
                    self.line("}");
                }
                self.indent -= 1;
                self.in_switch -= 1;
                self.line("}");
            }
            5 => {
                self.line("try {");
                self.block(d - 1);
                match self.rng.below(3) {
                    0 => {
                        self.line("} catch (e) {");
                        self.block(d - 1);
                    }
                    1 => {
                        self.line("} catch {");
                        self.block(d - 1);
                        self.line("} finally {");
                        self.block(d - 1);
                    }
                    _ => {
                        self.line("} finally {");
                        self.block(d - 1);
                    }
                }
                self.line("}");
            }
            6 => {
                if self.in_fn > 0 && self.allow_return {
                    let e = self.expr(ed);
                    if self.rng.chance(1, 5) {
                        self.line(&format!("throw new Error({});", e));
                    } else {
                        self.line(&format!("return {};", e));
                    }
                } else {
                    let e = self.expr(ed);
                    self.line(&format!("void ({});", e));
                }
            }
            7 => {
                let n = self.fresh("g");
                if self.rng.chance(1, 2) {
                    self.function(&n, d - 1, false);
                } else {
                    // arrow with block body / expression body
                    let (sa, sg, sl, ss) = (self.in_async, self.in_gen, self.in_loop, self.in_switch);
                    if self.rng.chance(1, 2) {
                        self.line(&format!("const {} = (a, b, c) => {{", n));
                        self.fn_body(d - 1, false, false);
                        self.line("};");
                    } else {
                        self.in_async = false;
                        self.in_gen = false;
                        let e = self.expr(ed);
                        self.line(&format!("const {} = (a, b = 'q', c) => {};", n, e));
                    }
                    self.in_async = sa;
                    self.in_gen = sg;
                    self.in_loop = sl;
                    self.in_switch = ss;
                }
            }
            8 => {
                let n = self.fresh("K");
                self.class(&n, d - 1);
            }
            9 => {
                if self.rng.chance(1, 2) {
                    self.line("{");
                    self.block(d - 1);
                    self.line("}");
                } else {
                    let l = self.fresh("lbl");
                    let i = self.fresh("i");
                    self.line(&format!("{l}: for (let {i} = 0; {i} < 1; {i}++) {{"));
                    self.in_loop += 1;
                    self.block(d - 1);
                    self.indent += 1;
                    self.line(&format!("continue {};", l));
                    self.indent -= 1;
                    self.in_loop -= 1;
                    self.line("}");
                }
            }
            _ => {
                if self.in_loop > 0 {
                    let kw = *self.rng.pick(&["break;", "continue;"]);
                    self.line(&format!("if (a) {}", kw));
                } else if self.in_switch > 0 {
                    self.line("if (a) break;");
                } else {
                    self.line(";");
                }
            }
        }
    }

    pub fn program(mut self) -> (String, usize) {
        if self.o.comments {
            self.line("// generated program");
        }
        if self.o.strict && !self.o.module {
            self.line("'use strict'");
        }
        if self.o.module {
            self.line("import dep from './dep.js';");
        } else {
            self.line("const dep = require('./dep.js');");
        }
        // the first block of the file sometimes holds an instrumented operation that needs temporaries
        match self.rng.below(4) {
            0 if self.o.ops => self.line("function fn0(x) { return String(x) + x.toString(); }"),
            1 if self.o.ops => self.line("function fn0(x) { const y = `${String(x)}`; return y; }"),
            _ => self.line("function fn0(x) { return x; }"),
        }
        self.line("function tag(s, ...v) { return s.raw.join(''); }");
        self.line("class Base { constructor() { this.v = 'base'; } }");
        let d = 2;
        for i in 0..self.o.items.max(1) {
            self.comment();
            match self.rng.below(8) {
                0 | 1 | 2 | 3 => {
                    let n = format!("f{}", i + 1);
                    let export = self.o.module && self.rng.chance(1, 2);
                    self.function(&n, d, export);
                }
                4 => {
                    let n = format!("C{}", i + 1);
                    self.class(&n, d);
                }
                5 => {
                    // top-level statement (outside any block: never instrumented)
                    let e = self.expr(2);
                    let v = self.fresh("top");
                    self.line(&format!("var {} = {};", v, e.replace("this.v", "dep")));
                }
                6 => {
                    let n = format!("h{}", i + 1);
                    self.line(&format!("const {} = (a, b, c) => {{", n));
                    self.fn_body(d, false, false);
                    self.line("};");
                }
                _ => {
                    self.line("{");
                    self.indent += 1;
                    self.line("let a = dep, b = 'tb', c = 3;");
                    self.indent -= 1;
                    let (l, s) = (self.in_loop, self.in_switch);
                    self.next_noret = true;
                    self.fn_body(d, false, false);
                    self.in_loop = l;
                    self.in_switch = s;
                    self.line("}");
                }
            }
        }
        if self.o.module {
            self.line("export default fn0;");
        } else {
            self.line("module.exports = { fn0 };");
        }
        let mut out = self.out;
        if self.o.crlf {
            out = out.replace('\n', "\r\n");
        }
        (out, self.ops_emitted)
    }
}

/// boundary sizes for anything that is counted, indexed, cached or buffered
pub const BOUNDARY: &[usize] = &[1, 2, 7, 8, 9, 10, 11, 15, 16, 17, 31, 32, 33, 63, 64, 65, 66, 99, 100, 101, 127, 128, 129, 255, 256, 257];

/// one function whose single statement needs about `n` temporaries / operands / properties
pub fn gen_wide(rng: &mut Rng, n: usize) -> String {
    let call = |i: usize| format!("b(a, {})", i);
    let body = match rng.below(5) {
        0 => format!("return a.concat({});", (0..n).map(call).collect::<Vec<_>>().join(", ")),
        1 => format!("return {};", (0..n.max(2)).map(call).collect::<Vec<_>>().join(" + ")),
        2 => format!("return `{}`;", (0..n).map(|i| format!("${{{}}}", call(i))).collect::<Vec<_>>().join("|")),
        3 => format!("return fn0({{ {} }});", (0..n).map(|i| format!("k{}: a.p{} + {}", i, i, call(i))).collect::<Vec<_>>().join(", ")),
        _ => format!("return [{}].join(a + b(a, 0));", (0..n).map(|i| format!("{}.trim()", call(i))).collect::<Vec<_>>().join(", ")),
    };
    format!("function fn0(x) {{ return x; }}\nfunction wide(a, b) {{\n  {}\n}}\nfunction after(a, b) {{ return a + b(a, 1); }}\nmodule.exports = {{ wide }};\n", body)
}

/// many distinct long string literals (the literal report has to carry all of them)
pub fn gen_many_literals(rng: &mut Rng, n: usize) -> String {
    let mut s = String::from("function lits(a, b) {\n");
    // named literals (assigned to an identifier) whose name order runs against their line order, ...
    let named = if n <= 1000 { n / 3 } else { 0 };
    for i in 0..named {
        s.push_str(&format!("  const name{:04} = 'named literal {:04} with salt {:06}';\n", named - i, i, rng.below(1_000_000)));
        if i % 3 == 0 {
            s.push_str(&format!("  o.p{} = 'property literal {:04} of the report';\n", i, i));
        }
    }
    // ... and unnamed ones
    s.push_str("  const all = [\n");
    for i in 0..n {
        s.push_str(&format!("    'literal number {:04} with salt {:06}',\n", i, rng.below(1_000_000)));
    }
    s.push_str("  ];\n  return all.join(a + b);\n}\nvar o = {};\nmodule.exports = { lits };\n");
    s
}

/// a program that contains nothing the rewriter instruments
pub fn gen_plain(rng: &mut Rng, mut o: GenOpts) -> String {
    o.ops = false;
    JsGen::new(rng, o).program().0
}

pub fn gen_program(rng: &mut Rng, o: GenOpts) -> (String, usize) {
    JsGen::new(rng, o).program()
}

/// token-ish mutation of a valid program (for C13): delete / duplicate / swap / unbalance
pub fn mutate_tokens(rng: &mut Rng, src: &str, n: usize) -> String {
    let mut toks: Vec<String> = Vec::new();
    let mut cur = String::new();
    let mut kind = 0u8; // 1 word, 2 space, 3 punct
    for ch in src.chars() {
        let k = if ch.is_alphanumeric() || ch == '_' || ch == '$' {
            1
        } else if ch.is_whitespace() {
            2
        } else {
            3
        };
        if k != kind || k == 3 {
            if !cur.is_empty() {
                toks.push(std::mem::take(&mut cur));
            }
            kind = k;
        }
        cur.push(ch);
    }
    if !cur.is_empty() {
        toks.push(cur);
    }
    let extra = [
        "(", ")", "{", "}", "[", "]", "`", "${", "'", "\"", "/", "*/", "/*", "//", "=>", "?.", "...",
        "+=", "+", "yield", "await", "class", "function", "\\", "\u{0}", "\u{feff}", "#", "@",
        "//# sourceMappingURL=", "<!--", "-->", "0x", "1e", "\\u{", "static", "get", "super",
    ];
    for _ in 0..n {
        if toks.is_empty() {
            break;
        }
        let i = rng.below(toks.len());
        match rng.below(5) {
            0 => {
                toks.remove(i);
            }
            1 => {
                let t = toks[i].clone();
                toks.insert(i, t);
            }
            2 => {
                let j = rng.below(toks.len());
                toks.swap(i, j);
            }
            3 => {
                toks.insert(i, rng.pick(&extra).to_string());
            }
            _ => {
                toks[i] = rng.pick(&extra).to_string();
            }
        }
    }
    toks.concat()
}

/// A zoo of syntactically valid (node --check) feature snippets: optional chains, private members,
/// accessors, labels, for-await, object accessors, delegating generators, logical assignment, BigInt,
/// regex v-flag, optional catch, new.target, eval, contextual keywords, nested templates, line
/// continuations, sequences, spreads, prototype call/apply forms, unbraced bodies, switch lexical
/// declarations, `this` forms, destructuring defaults, unary zoo, labelled continue, tagged member
/// templates, comments between operands, inner directives, redeclarations, import.meta, HTML comments...
pub const ZOO: &[&str] = &[
    r####"class Z56 { #s = ''; #t = { u: '' }; static #c = ''; last() { return this; } m(a, b, list) { this.#s += a; list.last().#s += b; this.last().#t.u += a + b; Z56.#c += a; (a ? this : list).#s += `${b}`; this.#t['u'] += b; return this.#s; } }"####,
    r####"function z53(a, b) { 'use strict';; return a + b(); }"####,
    r####"function z54(a, b) { 'use client'; 'use strict';; ; return `${a}${b}`; }"####,
    r####"function z55(a, b) { 'use asm'; ; 'use strict'; return a.concat(b); }"####,
    r####"function z50(a, b, o) { delete o.find(a + b); delete (o.prop); delete 0; delete this; delete a?.b; delete o[a + b]; delete o.p.q; delete (0, o.p); delete `t${a}`; return a + b; }"####,
    r####"function z51(a, b) { return fn0() + fn0(a) + fn0(...b) + fn0(a, b, a + b) + trim() + concat() + fn0?.() + new fn0() + fn0`t` + (0, fn0)() + fn0.call(); }"####,
    r####"function z52(a, b) { return `${a}${'px'}${'!'}` + `${'<b>'}${a}${'</b>'}` + `${'x'}${'y'}${a}` + `${1}${a}${null}${b}${true}` + `${`${a}`}${'z'}`; }"####,
    r####"function z47(a, b) { return a[b].concat.call(a[b], b) + a[b].handler.trim.apply(a, [b]) + a.b[0].c.substring.call(b, 1) + a()[b].trim.call(a); }"####,
    r####"class Z48 { #name = 'n'; m(a, b) { return this.#name.trim.call(a) + this.#name.concat.apply(a, [b]) + a.#name?.trim(); } static #s(a) { return a.trim.call(a); } }"####,
    r####"function z49(a, b) { return a?.[b].concat.call(a, b) + (a ?? b)[0].trim.call(b) + new a[b].concat.call(b); }"####,
    r####"function z45(a, b) { return String.raw`C:\users\admin\xfiles and more text` + tag`\unicode and \u{55 and \xerxes is long enough` + a; }"####,
    r####"function z46(a, b) { return trim(a) + a.trim() + concat(a, b) + a.concat(b) + substring(1) + b.substring(1) + replace(a)(b) + slice`x`; }"####,
    r####"function z41(a, b) { return 'abc'?.substring(1) + null?.trim() + /x/g?.replace(a, 'y') + (1)?.toString().concat(a) + (void 0)?.trim(); }"####,
    r####"function z42(a, b) { return `t`?.trim() + []?.concat(a) + ({})?.trim?.() + 'lit'?.concat?.(a, b) + true?.toString?.().trim(); }"####,
    r####"function z43(a, b) { return 'lit'.concat(a).trim() + ''.concat(...b) + "x".substring(1) + 'y'.replace('y', a) + 'z'.padEnd(3, a).repeat(2); }"####,
    r####"function z44(a, b) { return null?.[a]?.trim() + undefined?.concat(b) + this?.v?.trim() + super_ok?.(a)?.trim() + (a ?? b)?.trim(); }"####,
    r####"function z(a, b) { return super_ok(a) + b; }"####,
    r####"class Z1 extends Base { m(a, b) { return super.toString().trim() + a; } }"####,
    r####"function z2(a, b) { return a?.[b]?.trim() + a?.b.c?.(b) + (a?.b)(b); }"####,
    r####"function z3(a, b) { return tag`x${a + b}`.trim() + String.raw`\n${a}`; }"####,
    r####"async function z4(a, b) { const m = await import('./dep.js'); return m.default + a; }"####,
    r####"class Z5 { #p = 'a' + 'b'.trim(); static #q = 1; get #r() { return this.#p + Z5.#q; } m(a) { return this.#r + a; } static { Z5.s = `${Z5.#q}` + 'x'; } }"####,
    r####"function z6(a, b) { out: { if (a) break out; b += a; } return b; }"####,
    r####"async function z7(a, b) { for await (const x of a) { b += x; } return b; }"####,
    r####"function z8(a, b) { const o = { get g() { return a + b; }, set s(v) { a = v + b; }, ['k' + a]: b, m() { return `${a}`; }, async *ag() { yield a + b; } }; return o.g; }"####,
    r####"function* z9(a, b) { const x = yield* inner(a); return x + (yield a + b); }"####,
    r####"function z10(a, b) { a **= 2; b ??= 'd' + a; a ||= b + 'x'; b &&= a.concat(b); return a + b; }"####,
    r####"function z11(a, b) { return 1n + 2n, 1_000 + a, /[\p{L}--[a-z]]/v.test(b) + a; }"####,
    r####"function z12(a, b) { try { return a + b; } catch { return b + a; } finally { a += b; } }"####,
    r####"function z13(a, b) { return new.target ? a + b : arguments[0] + arguments.length; }"####,
    r####"function z14(a, b) { return eval('a + b') + (0, eval)('1') + a; }"####,
    r####"function z15(a, b) { var let_ = a, async = b; return async + let_ + (async => async + a)(b); }"####,
    r####"function z16(a, b) { return `a${`b${`c${a + b}`}`}` + `\`${a}\\`; }"####,
    r####"function z17(a, b) { return "  " + a + '\
continued' + b; }"####,
    r####"function z18(a, b) { return a ? b ? a + b : b + a : (a, b) + (a = b, a += b); }"####,
    r####"function z19(a, b) { return [...a, ...b].concat([a + b]).map((x) => x + a).join('' + b); }"####,
    r####"function z20(a, b) { return String.prototype.concat.call(...[a, b]) + String.prototype.trim.apply(a, []) + ''.concat.call(a, b); }"####,
    r####"function z21(a, b) { if (a) b += a; else b += b; while (a--) b += a; do b += a; while (a++ < 1); for (;a < 2; a++) b += a; return b; }"####,
    r####"function z22(a, b) { switch (a + b) { case a + 'x': let q = a + b; return q; case b: { return b + a; } default: return a; } }"####,
    r####"function z23(a, b) { return (function () { return this + a; }).call(b) + (() => this + a)() + (async () => a + b)(); }"####,
    r####"function z24(a, b) { const { x = a + b, ...r } = b, [y = `t${a}`] = a; return x + y + r; }"####,
    r####"function z25(a, b) { return typeof a + void b + !a + -b + +a + ~b + (a instanceof Object) + (a in b) + delete a.b; }"####,
    r####"function z26(a, b) { label: for (const k in a) { for (const v of b) { if (v) continue label; a += k + v; } } return a; }"####,
    r####"class Z27 { static async *[Symbol.asyncIterator]() { yield 'a' + 'b'; } accessor x = 1; static accessor y = 'a' + 'c'; }"####,
    r####"function z28(a, b) { return a.b.c.trim().concat(b.trim(), a?.trim?.()).substring(1, b.length) + a['trim']() + a.trim`x`; }"####,
    r####"function z29(a, b) { return a + /* c1 */ b // c2
 + /** c3 */ a; }"####,
    r####"function z30(a, b) { "use strict"; return a + b + `${a}${b}`; }"####,
    r####"function z31(a, b) { var a; function a() {} return a + b; }"####,
    r####"function z32(a, b) { return (a, b) => { return a + b; }, async function* () { yield* [a + b]; }, class { [a + b]() {} }; }"####,
    r####"function z33(a, b) { return new (a.b.bind(b, a + b))(...a).c + new a; }"####,
    r####"function z34(a, b) { debugger; with_ok(a); return a + b; }"####,
    r####"function z35(a, b) { return import.meta.url + a; }"####,
    r####"function z36(a, b) { return a <!--b
 + b; }"####,
    r####"function z37(a, b) { return a.concat(b).trim().concat(a + b, ...b, `${a}`).trimStart?.().trimEnd() ?? a + b; }"####,
    r####"function z38(a, b) { x = a + b; y.z += x; y[a + b] += b; ({ p: y.q } = { p: a + b }); [y.r = a + b] = []; return y; }"####,
    r####"function z39(a, b) { return a + (b + (a + (b + (a + (b + (a + (b + (a + b)))))))); }"####,
    r####"function z40(a, b) { return `${a}${b}`.concat`${a}` + (a + b)`x`; }"####,
];

/// the JS inputs and expected outputs of the repository's own spec files and unit tests (a vendored
/// snapshot, `tools/harvest_corpus.js`); the tests run each alone, on a fresh rewriter, with one
/// configuration and no faults - the simulators combine them
pub fn corpus() -> &'static Vec<String> {
    static C: std::sync::OnceLock<Vec<String>> = std::sync::OnceLock::new();
    C.get_or_init(|| {
        let v: serde_json::Value = serde_json::from_str(include_str!("../../../corpus/snippets.json")).expect("corpus");
        v.as_array().expect("corpus array").iter().filter_map(|x| x["text"].as_str().map(|s| s.to_string())).collect()
    })
}

pub fn gen_corpus(rng: &mut Rng, n: usize) -> String {
    let c = corpus();
    let mut s = String::new();
    for i in 0..n {
        let t = &c[rng.below(c.len())];
        // a block keeps `const result` of one snippet from colliding with the next one's
        match rng.below(4) {
            0 => s.push_str(t),
            1 => s.push_str(&format!("function corpus{}(a, b, c) {{\n{}\n}}", i, t)),
            _ => s.push_str(&format!("{{\n{}\n}}", t)),
        }
        s.push('\n');
    }
    s
}

/// multi-byte white space (U+FEFF, U+00A0, U+2003) where `delete` expects its operand, followed by `.p`:
/// the diagnostic of this syntax error makes swc slice the source in the middle of that character
/// (known finding F14; only generated in a tagged minority of the C13 runs)
pub fn gen_unicode_space_after_delete(rng: &mut Rng) -> String {
    let sp = *rng.pick(&["\u{feff}", "\u{a0}", "\u{2003}", "\u{3000}"]);
    format!("function f(o, a, b) {{\n  const v = a + b;\n  delete {}.p;\n  return v;\n}}\n", sp)
}

/// a program that starts with a directive prologue in unusual shapes (several directives, stray `;`)
pub fn gen_prologue(rng: &mut Rng) -> String {
    let d = *rng.pick(&["'use strict';", "\"use strict\";;", "'use client'; 'use strict';", "'use client';\n'use strict';;", "'use asm';;;", "\"use strict\";;(function () { return 1; })();", ";'use strict';"]);
    format!("{}\nfunction after(a, b) {{ return a + b(); }}\n(function (a, b) {{ return `${{a}}${{b}}`; }})('x', 'y');\n", d)
}

/// a one-line script with a syntax error at its end and kilobytes of non-ASCII text before it (the
/// diagnostic quotes the line): multi-byte characters at every byte offset
pub fn gen_long_line_error(rng: &mut Rng) -> String {
    let pad = "p".repeat(rng.below(8));
    let body = "\u{e9}\u{4f60}".repeat(rng.range(300, 900));
    format!("function f(a) {{ const s = '{}{}'; return a+; }}\n", pad, body)
}

/// one construct repeated n times inside a block (anything that is counted per file, per block or per
/// thread shows at such sizes), followed by a function that must still be instrumented
pub fn gen_repeat(rng: &mut Rng, n: usize) -> String {
    let k = rng.below(12);
    let mut s = String::from("var o = {}, x;\nfunction many(a, b) {\n");
    for i in 0..n {
        let line = match k {
            0 => format!("  delete o.p{};", i),
            1 => format!("  {{ x = a + b; }}"),
            2 => format!("  o.p{} += a;", i),
            3 => format!("  a?.b?.trim();"),
            4 => format!("  x = `t${{a}}{}`;", i),
            5 => format!("  (() => a + b)();"),
            6 => format!("  label{}: for (;;) break label{};", i, i),
            7 => format!("  if (a) x = a + b; else x = b;"),
            8 => format!("  x = typeof a + void b;"),
            9 => format!("  x = a.trim().concat(b);"),
            10 => format!("  try {{ x = a + b; }} catch (e{}) {{ delete o[e{}]; }}", i, i),
            _ => format!("  x = function () {{ return delete o.q{}; }};", i),
        };
        s.push_str(&line);
        s.push('\n');
    }
    s.push_str("  return x;\n}\nfunction after(a, b) { return a + b; }\n");
    s
}

/// module-level syntax (import / export forms, import attributes, `import.meta`, top-level await,
/// and the stage-1 `export v from` that parsers accept only behind an option)
pub const MODULE_ZOO: &[&str] = &[
    "export * as ns from 'm';",
    "export * from 'm2';",
    "export { default } from 'm';",
    "export { default as d2, x as y } from 'm';",
    "import def, * as ns2 from 'm';",
    "import { a as b1, default as c1 } from 'm';",
    "import 'side-effect';",
    "export const ex1 = (a, b) => a + b;",
    "export function ex2(a, b) { return `${a}${b}`; }",
    "export class Ex3 { m(a, b) { return a.concat(b); } }",
    "import j from './d.json' with { type: 'json' };",
    "const lazy = () => import('m').then((m) => m.a + m.b);",
    "const here = import.meta.url + '#x';",
    "const tla = await Promise.resolve('a' + here2());\nfunction here2() { return 'h'; }",
    "export v from 'm';",
    "export v2, { x2 } from 'm';",
    "export { fn0 as 'string name' };",
    "import { 'string name' as sn } from 'm';",
    "let q1, q2; export { q1 as default, q2 };",
];

pub fn gen_module(rng: &mut Rng, n: usize) -> String {
    let mut s = String::from("function fn0(x) { return x; }\n");
    for _ in 0..n {
        s.push_str(*rng.pick(MODULE_ZOO));
        s.push('\n');
    }
    if rng.chance(1, 3) {
        s.push_str(*rng.pick(&["export default function (a, b) { return a + b; }\n", "export default (a, b) => a + b;\n", "export default class { m(a) { return a + 'x'; } }\n", "export default fn0('a') + fn0('b');\n"]));
    }
    s.push_str("export function always(a, b) { return a + b; }\n");
    s
}

pub fn gen_zoo(rng: &mut Rng, n: usize) -> String {
    let mut s = String::from("function fn0(x) { return x; }\nfunction super_ok(x) { return x; }\nfunction with_ok(x) { return x; }\nfunction* inner(a) { return a; }\nfunction trim(x) { return x; }\nfunction concat(x) { return x; }\nfunction substring(x) { return x; }\nfunction replace(x) { return fn0; }\nfunction slice(x) { return x; }\nfunction tag(s, ...v) { return s.raw.join(''); }\nclass Base { constructor() { this.v = 'base'; } }\nvar x, y = {};\n");
    for _ in 0..n {
        s.push_str(*rng.pick(ZOO));
        s.push('\n');
    }
    // optional chains and calls whose base or callee object is a literal of every kind, followed by a
    // configured method (side stream: the choices above stay as they were)
    let mut side = rng.side(0x200);
    if side.chance(1, 2) {
        for _ in 0..side.range(1, 4) {
            s.push_str(*side.pick(ZOO_LITERAL_BASES));
            s.push('\n');
        }
    }
    // round r: templates whose substitutions are concatenations of constants only, or plain `+` expressions
    // (what is left untouched depends on the configuration)
    if side.chance(1, 2) {
        for _ in 0..side.range(1, 3) {
            s.push_str(*side.pick(ZOO_CONSTANT_TEMPLATES));
            s.push('\n');
        }
    }
    s
}

pub const ZOO_CONSTANT_TEMPLATES: &[&str] = &[
    r####"function z60(a, b) { return `${'a' + 'b' + 'c'}` + `${1 + 2 + 3}${'x' + ('y' + 'z')}`; }"####,
    r####"function z61(a, b) { return `${'a' + 'b'}${'c' + 'd' + 'e'}tail` + `${a}${'k' + 'l' + 'm'}`; }"####,
    r####"function z62(a, b) { return `${b + a}` + `${a + b}${b + a}` + `pre${a + 'x'}`; }"####,
    r####"function z63(a, b) { return `${-1 + +1 + ~1}` + `${typeof 'a' + 'b' + 'c'}` + `${'a' + 'b' + 1n}`; }"####,
    r####"function z64(a, b) { return `${('a' + 'b') + ('c' + 'd')}${null + undefined + ''}` + `${`${'p' + 'q' + 'r'}`}`; }"####,
    // round s: `.call` / `.apply` whose callee path is short or starts at something that is neither an identifier nor a member
    r####"function z70(a, b) { return this.Array.call(this, a) + fn0().Array.apply(null, b) + (a || b).String.call(a) + fn0().prototype.trim.call(a) + this.concat.call(a, b) + fn0().Array.prototype.slice.call(a) + this.prototype.call(a) + (0, fn0).call(a); }"####,
    r####"function z71(a, b) { return Array.call(a, b) + prototype.trim.apply(a, [b]) + String.prototype.call(a) + a[0].Array.call(b, 1) + new.target.Array.call(a, b) + `x`.Array.call(a) + (() => a).Array.apply(b, [a]); }"####,
];

pub const ZOO_LITERAL_BASES: &[&str] = &[
    "function q1(a, x, y) { const r = 'abc'.foo?.(y).concat(x); return r; }",
    "function q2(s, rest) { const m = /x+/.exec?.(s).concat(rest); return m; }",
    "function q3(x) { return 1..toFixed?.(2).concat(x); }",
    "function q4(x) { return `t`.at?.(0).trim().concat(x); }",
    "function q5(x) { return null?.foo(x).trim(); }",
    "function q6(x) { return true.toString?.().concat(x) + x; }",
    "function q7(x) { return 10n.toString?.().trim(); }",
    "function q8(x, y) { return ('a' + x).big?.().concat(y); }",
    "function q9(x) { return [].concat?.(x).join('').trim(); }",
    "function q10(x) { return ({}).k?.(x).substring(1); }",
    "function q11(x) { return this?.m?.(x).concat(x); }",
    "function q12(x) { return 'abc'?.['con' + 'cat']?.(x).trim(); }",
    "function q13(x, y) { { const r = 'abc'.foo?.(y)?.concat(x).trim?.(); return r; } }",
    "function q14(x) { return 'abc'.concat?.(x).concat(1..toString?.(2).trim()); }",
    "function q15(x) { return (0, 'abc').foo?.(x).concat(x); }",
    "function q16(x) { return undefined?.[x]?.(x).trim().concat('a'.b?.(x).trim()); }",
];
