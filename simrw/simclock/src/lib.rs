//! Drop-in for `instant` 0.1 whose clock is owned by the simulator: time only moves when the
//! simulator says so (`sim::advance`), e.g. as the latency of a simulated read or as idle time
//! between calls. Logical nanoseconds since the start of the process.
use std::ops::{Add, AddAssign, Sub, SubAssign};
use std::sync::atomic::{AtomicU64, Ordering};
pub use std::time::Duration;

static NOW_NS: AtomicU64 = AtomicU64::new(1_000_000_000);

pub mod sim {
    use super::*;
    pub fn advance(d: Duration) {
        NOW_NS.fetch_add(d.as_nanos() as u64, Ordering::SeqCst);
    }
    pub fn now_ns() -> u64 {
        NOW_NS.load(Ordering::SeqCst)
    }
}

#[derive(Copy, Clone, Debug, PartialEq, Eq, PartialOrd, Ord, Hash)]
pub struct Instant(u64);

impl Instant {
    pub fn now() -> Instant {
        Instant(NOW_NS.load(Ordering::SeqCst))
    }
    pub fn duration_since(&self, earlier: Instant) -> Duration {
        Duration::from_nanos(self.0.saturating_sub(earlier.0))
    }
    pub fn checked_duration_since(&self, earlier: Instant) -> Option<Duration> {
        self.0.checked_sub(earlier.0).map(Duration::from_nanos)
    }
    pub fn saturating_duration_since(&self, earlier: Instant) -> Duration {
        self.duration_since(earlier)
    }
    pub fn elapsed(&self) -> Duration {
        Instant::now().duration_since(*self)
    }
    pub fn checked_add(&self, d: Duration) -> Option<Instant> {
        self.0.checked_add(d.as_nanos() as u64).map(Instant)
    }
    pub fn checked_sub(&self, d: Duration) -> Option<Instant> {
        self.0.checked_sub(d.as_nanos() as u64).map(Instant)
    }
}

impl Add<Duration> for Instant {
    type Output = Instant;
    fn add(self, d: Duration) -> Instant {
        Instant(self.0 + d.as_nanos() as u64)
    }
}
impl Sub<Duration> for Instant {
    type Output = Instant;
    fn sub(self, d: Duration) -> Instant {
        Instant(self.0.saturating_sub(d.as_nanos() as u64))
    }
}
impl Sub<Instant> for Instant {
    type Output = Duration;
    fn sub(self, o: Instant) -> Duration {
        self.duration_since(o)
    }
}
impl AddAssign<Duration> for Instant {
    fn add_assign(&mut self, d: Duration) {
        self.0 += d.as_nanos() as u64;
    }
}
impl SubAssign<Duration> for Instant {
    fn sub_assign(&mut self, d: Duration) {
        self.0 = self.0.saturating_sub(d.as_nanos() as u64);
    }
}

/// milliseconds, as `instant::now()` gives
pub fn now() -> f64 {
    NOW_NS.load(Ordering::SeqCst) as f64 / 1_000_000.0
}

#[derive(Copy, Clone, Debug, PartialEq, Eq, PartialOrd, Ord, Hash)]
pub struct SystemTime(u64);
impl SystemTime {
    pub const UNIX_EPOCH: SystemTime = SystemTime(0);
    pub fn now() -> SystemTime {
        // a fixed wall-clock origin plus simulated time
        SystemTime(1_790_000_000_000_000_000 + NOW_NS.load(Ordering::SeqCst))
    }
    pub fn duration_since(&self, earlier: SystemTime) -> Result<Duration, ()> {
        self.0.checked_sub(earlier.0).map(Duration::from_nanos).ok_or(())
    }
    pub fn elapsed(&self) -> Result<Duration, ()> {
        SystemTime::now().duration_since(*self)
    }
}
