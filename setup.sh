#!/bin/bash
# Offline build of the simulator from files on disk only.
set -e
HERE="$(cd "$(dirname "$0")" && pwd)"
export CARGO_NET_OFFLINE=true
cd "$HERE/simrw"
[ -e shadow/tracer_logger.js ] || ln -sf /repo/tracer_logger.js shadow/tracer_logger.js
cargo build --release --offline
